"""Per-property check definitions: which engine, profile, configurations, allocator kinds, flavours and bounds."""
import json
import os
import random
import subprocess
import sys
import time

import vflib as vf
from vflib import Unit

# ---------------------------------------------------------------------------------------------- curated configurations
# (configuration, allocator kinds for the quick tier)
HIST_CONFIGS = [
    # all plain
    ("P:u32,P:f32", ["std"]),
    ("P:char,P:u32@8", ["s000"]),
    ("P:Tr8,P:u16,P:str", ["s010", "e001"]),
    ("P:bool,P:enumE,P:ptr,P:B12@4", ["s111"]),
    ("P:Amp8,F:Amp8,P:u8", ["s000"]),  # a value type with an overloaded unary &
    # FixedSize only
    ("P:u32,F:f32", ["s000", "e100"]),
    ("F:f32,P:u32,F:f32", ["std"]),
    ("P:u32,F:f32@32", ["s100"]),
    ("F:f32@8,P:u32@16,F:f32", ["s001"]),
    ("F:f32@32,F:u32,P:u32", ["s000d"]),
    ("F:uptr,P:uptr", ["s000"]),
    ("F:str,P:str", ["std", "s110", "e010"]),
    ("F:Tr4,P:u8,F:Tr24@8", ["s000", "s011"]),
    ("P:u8,F:u16@16,P:u8,F:u32@4,P:u64@8", ["s101"]),
    # VaryingSize only
    ("P:u32,C:u64@8,V:f32", ["std", "s000"]),
    ("P:u32,C:u64@8,V:f32,C:u64@8,V:f32", ["s010"]),
    ("C:u64@8,V:f32@16,P:u32", ["s000"]),
    ("P:u32,C:u64@8,V:f32@8,C:u64@8,V:f32@16", ["s111"]),
    ("C:u8,V:u8,P:u16@4", ["s100"]),
    ("C:u16,V:B3,C:u32,V:u64@8", ["std"]),
    ("C:u64,V:u8,P:u64@8", ["s001"]),
    ("C:u64@8,V:uptr,P:uptr", ["s000"]),
    ("C:u64@8,V:str,P:str", ["s000", "stdm", "s000d"]),
    ("C:u32,V:Tr4,P:Tr24", ["s000", "s110", "e111"]),
    ("P:u8,C:u16,V:Tr8@8,P:TrMv8", ["s010"]),
    ("P:Ctm8,C:u32,V:Ctm8", ["s000"]),  # trivial copy constructor, user-provided move constructor
    ("P:Cnt8,F:Cnt8,C:u16,V:Cnt8", ["s100"]),  # user-provided copy operations, trivial move operations
    ("C:u16,V:bptr,P:bptr", ["std"]),   # pointers to a base class at a non-zero offset (sources: pointers to derived)
    # mixed
    ("F:f32,P:u32,C:u64@8,V:f32", ["s000", "e100"]),
    ("F:f32@16,P:u32,C:u64@8,V:f32@8", ["std"]),
    ("F:Tr8,C:u8,V:u16@2,P:Tr4@4", ["s000", "s111d"]),
    ("P:byte,C:u32,V:char,F:i16@2,C:u16,V:i16", ["s011"]),
    ("F:Ctm8,P:u16,C:u8,V:Amp8", ["s010"]),
]

ALL_STATEFUL = ["s000", "s001", "s010", "s011", "s100", "s101", "s110", "s111"]

PLAIN_TYPES = ["u8", "u16", "u32", "u64", "f32", "f64", "char", "byte", "bool", "enumE", "ptr", "B3", "B12", "i8", "i32", "Amp8", "bptr", "B6", "B20"]
NT_TYPES = ["Tr4", "Tr8", "Tr24", "str", "uptr", "TrMv8", "Ctm8", "Cnt8"]
ALIGNS = [0, 0, 0, 1, 2, 4, 8, 16, 32, 64]


def sample_config(rng, want_kind):
    """Random parameter list from the grammar, stratified by category."""
    n = rng.randint(1, 5)
    fields = []
    nontrivial = rng.random() < 0.4
    def ty():
        if nontrivial and rng.random() < 0.5:
            return rng.choice(NT_TYPES)
        return rng.choice(PLAIN_TYPES)
    def al(t):
        a = rng.choice(ALIGNS)
        return a
    kinds = {"plain": "P", "fixed": "PF", "varying": "PV", "mixed": "PFV"}[want_kind]
    need = set(kinds) - {"P"}
    while len(fields) < n or need:
        k = rng.choice(kinds) if not need or rng.random() < 0.5 else rng.choice(sorted(need))
        need.discard(k)
        if k == "V":
            fields.append(("C", rng.choice(vf.COUNT_TYPES), rng.choice([0, 0, 8, 4, 2])))
        t = ty()
        fields.append((k, t, al(t)))
        if len(fields) > 7:
            break
    if want_kind in ("varying", "mixed") and not any(k == "V" for k, _, _ in fields):
        fields.append(("C", "u32", 0))
        fields.append(("V", ty(), 0))
    if want_kind in ("fixed", "mixed") and not any(k == "F" for k, _, _ in fields):
        fields.insert(0, ("F", ty(), 0))
    return ",".join("%s:%s%s" % (k, t, "@%d" % a if a else "") for k, t, a in fields)


def sampled_configs(seed, count):
    rng = random.Random(seed * 7919 + 13)
    out = []
    cats = ["plain", "fixed", "varying", "mixed"]
    i = 0
    while len(out) < count:
        c = sample_config(rng, cats[i % 4])
        i += 1
        try:
            vf.parse_cfg(c)
        except AssertionError:
            continue
        kind = rng.choice(["std", "stdm"] + ALL_STATEFUL + ["s000d", "s111d"])
        out.append((c, [kind]))
    return out


# ---------------------------------------------------------------------------------------------- hist-based checks
HIST_PROPS = {
    # prop: (profile, rule for non-triviality, extra args)
    "C01": ("uniform", "random valid histories over a pool of 3 vectors, every monitor after every step; non-trivial: the history contains a relocating step (erase in front of other elements, growing reserve on >= 2 elements) followed by a further mutating step; distinct: hash of the operation list per (configuration, allocator kind)"),
    "C02": ("budget", "histories that fill vectors to exactly N elements / B payload bytes with adversarial splits (all in first / last element, alternating empty and large, minimal), then erase / refill; non-trivial: a vector reached size()==capacity() with payload == budget and >= 2 distinct span lengths (or a full fixed-size vector with >= 2 elements)"),
    "C03": ("uniform", "every AlignAs object address checked modulo A after every step, allocator returns least-aligned blocks on even case groups; non-trivial: a checked object sits directly behind a span whose byte length is not a multiple of A"),
    "C04": ("uniform", "interval order / overlap / containment and span counts of every element after every step; non-trivial: an element with >= 3 fields where a span is empty or differs in length from its neighbour (lists with < 3 fields: >= 2 elements held)"),
    "C05": ("copymove", "field and element start addresses compared with an independent greedy layout after every step; footprint bound checked against a freshly constructed probe vector after reserve / copy / assignment; non-trivial: a step allocated a new data block while the target already owned one"),
    "C06": ("lifetime", "address-keyed registry of instrumented objects, byte sweep and live-set comparison after every step; non-trivial: an erase whose relocation overlaps the element's old storage, or a transfer between unequal allocators"),
    "C07": ("copymove", "ledger allocator: every allocate / deallocate checked for pointer, size, arena and type, orphan blocks after every step, balance when all containers are destroyed; non-trivial: >= 3 data block allocations and assignments in both size directions"),
    "C08": ("copymove", "get_allocator() arena and arena of the owning block after every step, element-wise move count for unequal non-propagating allocators; non-trivial: an assignment between vectors of unequal arenas"),
    "C09": ("copymove", "model comparison of both operands after copy / move / swap incl. self-assignment, operations on moved-from vectors; non-trivial: source partly filled (0 < size < capacity) and target non-empty"),
    "C10": ("reserve", "reserve at every fill level, repeated, then fill to the new limits under the bounds monitors; non-trivial: growing reserve on a vector with 0 < size < capacity"),
    "C16": ("norealloc", "addresses of all stored objects, data_begin(), capacity() and the ledger event counter before / after every step; non-trivial: >= 10 consecutive non-reallocating steps"),
    "C18": ("empty", "histories that spend most steps on empty vectors reached in every way (default, capacity 0, fresh, emptied by pop_back / erase / clear, moved-from then cleared, copy of empty), replayed under a second junk pattern; non-trivial: an empty state reached by a non-fresh route"),
}

KIND_HEAVY = {"C05", "C07", "C08", "C09"}
# thorough tier of the allocator-heavy properties: every allocator kind on these lists (one or two per category / value-type class)
KIND_GRID_LISTS = {"P:Tr8,P:u16,P:str", "P:u32,F:f32", "F:str,P:str", "F:Tr4,P:u8,F:Tr24@8", "P:u32,C:u64@8,V:f32", "C:u64@8,V:str,P:str", "C:u32,V:Tr4,P:Tr24",
                   "F:f32,P:u32,C:u64@8,V:f32", "F:Tr8,C:u8,V:u16@2,P:Tr4@4", "P:Cnt8,F:Cnt8,C:u16,V:Cnt8"}
ELEMENT_PROPS = {"C03", "C04", "C06", "C07", "C08"}


# ---------------------------------------------------------------------------------------------- manifest tables
ENGINES = [
    ("hist", ["C01", "C02", "C03", "C04", "C05", "C06", "C07", "C08", "C09", "C10", "C16", "C18"], "random valid operation histories over a pool of vectors, all monitors after every step"),
    ("matrix", ["C20"], "one cell per documented operation x parameter-list category x allocator kind: compiled by g++ and clang++, then executed under ASan/UBSan with a postcondition"),
    ("cmp", ["C13", "C14"], "operand pools over small value domains; all ordered pairs and triples across operand kinds, capacities, junk patterns, arenas and allocator types"),
    ("ref", ["C11"], "writes through one access path cross-read through all others, reference assignment / swap, permuting algorithms and iterator arithmetic against a model"),
    ("elem", ["C12"], "pool of ContiguousElements next to a source vector: constructions, assignments, swaps, element <-> reference assignment, mutations, all monitors after every step"),
    ("emplace", ["C15"], "finite grid of type pairs x source forms x parameter kinds x lengths, C++17 and C++20 builds, stored values against static_cast<T>(source item)"),
    ("fault", ["C17"], "allocation-failure enumeration: every allocation of every operation fails in turn from identical generated pre-states"),
    ("race", ["C19"], "multi-threaded const use of shared vectors / elements with writers on private copies under ThreadSanitizer (g++ and clang++)"),
]
ENGINE_OF = {p: "hist" for p in HIST_PROPS}
ENGINE_OF.update({"C20": "matrix", "C13": "cmp", "C14": "cmp", "C11": "ref", "C12": "elem", "C15": "emplace", "C17": "fault", "C19": "race"})
CLAIMED = sorted(ENGINE_OF)
LEVEL = {"C17": "fault_enumeration"}
LEVEL_TEXT = {
    "C20": "Exhaustive over a declared finite matrix (operation x parameter-list category x value-type category x allocator kind): every cell is compiled with two compilers and the compiled cell is executed under ASan/UBSan and the ledger with a postcondition. Ill-formedness is a build-time observation of the generated unit (the honest limit of this family for C20, see DESIGN.md).",
    "C15": "Exhaustive enumeration of a declared finite grid (27 type pairs x 16 source forms x 2 parameter kinds x 6 lengths x 2 language standards), each cell executed under ASan/UBSan with the stored values compared against T(source item) and the source inspected afterwards.",
    "C17": "Fault enumeration: for each sampled pre-state EVERY allocation the operation performs is failed in turn (exhaustive over the fault index, sampled over pre-states and parameter lists); ledger, object registry and public API decide the outcome.",
    "C19": "Exploration of schedules by stress: 8 to 16 unsynchronised threads, millions of overlapping const operations under ThreadSanitizer with two compilers. No race observed is not a proof of race freedom; sensitivity is shown by a mutant that caches size() in a mutable member.",
}
LEVEL_NOTE = {"C20": "Trusted: g++ 12 and clang++ 14 as arbiters of well-formedness, the curated representative parameter list per category (thorough adds sampled lists and all allocator kinds), the harness postconditions.",
              "C19": "Trusted: ThreadSanitizer's happens-before detection (it only sees accesses that execute), relaxed-atomic activity counters of the harness (no synchronisation edges), std::string / scalar value types."}
TECHNIQUE = {
    "C20": "runtime monitoring of generated instantiation units: each operation cell compiled (g++, clang++) then executed under ASan/UBSan + ledger allocator with postconditions",
    "C13": "runtime monitoring: ==/!= on enumerated operand pairs (13 operand-kind combinations, 3 junk patterns, 2 capacities, 2 allocator types) against field-wise equality of a model, under ASan/UBSan",
    "C14": "runtime monitoring: the six relational operators on enumerated operand pairs and triples checked against the order axioms, operand-kind independence and lexicographical comparison under the observed element-level <",
    "C11": "runtime monitoring: model-based cross-read of every access path after writes, reference assignment / swap and std permuting algorithms; iterator arithmetic vs index arithmetic for all index pairs; ASan/UBSan + object registry",
    "C12": "runtime monitoring: model comparison of a pool of elements and their source vector after every construction / assignment / swap, with allocator-identity, block-ownership, layout, object-registry and ledger monitors under ASan/UBSan",
    "C15": "runtime monitoring: exhaustive source-form x type-pair grid executed under ASan/UBSan, stored values vs static_cast<T>(source), move/copy counting value type, counting input iterator",
    "C17": "fault injection at the allocator (every allocation index in turn) with ledger-balance, object-registry and operand-validity monitors under ASan/UBSan",
    "C19": "ThreadSanitizer (g++ and clang++) on a multi-threaded const-use stress harness with overlap accounting",
}
NOT_APPLICABLE = []


def tier_limits(tier):
    if tier == "quick":
        return {"max-cap": 8, "max-span": 6, "max-fixed": 4, "max-steps": 40}
    return {"max-cap": 24, "max-span": 16, "max-fixed": 9, "max-steps": 120}


def hist_family(rng, count):
    """Sampled VaryingSize / mixed lists of non-trivially-relocatable types with odd sizes and alignments: elements whose
    size is not a multiple of the element alignment (the element-wise relocation paths depend on it)."""
    out, seen, guard = [], set(), 0
    nt = ["Tr4", "Tr8", "Tr24", "str", "uptr", "TrMv8", "Tr4", "Tr8"]
    small = ["u8", "u16", "u32", "B3", "char", "bool"]
    aligns = [0, 0, 2, 4, 8, 16, 32]
    while len(out) < count and guard < count * 50:
        guard += 1
        fields = []
        if rng.random() < 0.7:
            fields.append(("P", rng.choice(nt + small), rng.choice(aligns)))
        for _ in range(rng.randint(1, 2)):
            fields.append(("C", rng.choice(["u8", "u16", "u32", "u64"]), rng.choice([0, 0, 2, 8])))
            fields.append(("V", rng.choice(nt if rng.random() < 0.7 else small), rng.choice(aligns)))
            if rng.random() < 0.6:
                fields.append((rng.choice("PF"), rng.choice(nt + small), rng.choice(aligns)))
        if len(fields) > 6 or not any(t in vf.NONTRIVIAL for _, t, _ in fields):
            continue
        fields = first_gets_max_alignment(rng, fields)
        s = ",".join("%s:%s%s" % (k, t, "@%d" % a if a else "") for k, t, a in fields)
        if s not in seen:
            seen.add(s)
            out.append(s)
    return out


def first_gets_max_alignment(rng, fields):
    """In half of the sampled lists the first parameter carries the largest alignment of the list: the library then relies
    on the element start alone for its alignment (no run-time adjustment), which is where a misplaced element shows."""
    mx = max(a for _, _, a in fields)
    if mx > 1 and rng.random() < 0.5:
        k, t, _ = fields[0]
        fields = [(k, t, mx)] + list(fields[1:])
    return fields


def hist_units(prop, tier, seed):
    profile = HIST_PROPS[prop][0]
    known = vf.load_known()
    avoid = ",".join(vf.avoid_tokens(known))
    units = []
    configs = list(HIST_CONFIGS)
    frng = random.Random(seed * 32452843 + 3)
    fam_kinds = ["s000", "s010", "std", "s111", "s100", "s001"]
    configs += [(c, [fam_kinds[i % len(fam_kinds)]]) for i, c in enumerate(hist_family(frng, 8 if tier == "quick" else 32))]
    if tier == "thorough":
        configs += sampled_configs(seed, 24)
    cases = 1500 if tier == "quick" else 2000
    # developer aids (not used by the registered commands)
    if os.environ.get("VERIF_EXTRA_CFG"):
        configs += [(c, ["s111d", "s000"]) for c in os.environ["VERIF_EXTRA_CFG"].split(";")]
    if os.environ.get("VERIF_ONLY_CFG"):
        configs = [(c, k) for c, k in configs if c in os.environ["VERIF_ONLY_CFG"].split(";")]
    if os.environ.get("VERIF_CASES"):
        cases = int(os.environ["VERIF_CASES"])
    flavours = ["plain", "asan"] if tier == "quick" else ["plain", "asan", "casan"]
    curated = set(c for c, _ in HIST_CONFIGS)
    for cfg, kinds in configs:
        ks = list(kinds)
        if prop in KIND_HEAVY and tier == "thorough" and cfg in KIND_GRID_LISTS:
            ks = sorted(set(ks + ALL_STATEFUL + ["std", "e100", "e010", "e001", "e111"]))  # the whole propagation-trait grid on one list per category
        elif prop == "C08":
            pass
        for k in ks:
            for fl in flavours:
                a = dict(tier_limits(tier))
                a.update({"profile": profile, "seed": seed})
                if avoid:
                    a["avoid"] = avoid
                if prop == "C18":
                    a["junk-diff"] = 1
                a["focus"] = prop
                n = cases if fl != "casan" else cases // 3
                units.append(Unit("hist", cfg, k, fl, a, n, batch=100))
    # dedicated probe units for the open findings of this property: no avoidance, so the listed defect is still driven.
    # C16 ("erase requests nothing from the allocator") borrows the probe of the erase finding: the bulk of its histories
    # steers around that zone, and a repair of the finding that relocates through an allocated temporary shows only there.
    for f in known:
        borrowed = prop == "C16" and f.get("id") == "KF-erase-overlap-C06"
        if f.get("status") == "open" and (f["property"] == prop or borrowed) and f.get("probe", {}).get("engine") == "hist":
            pr = f["probe"]
            for cfg in pr["cfgs"]:
                for fl in ["plain", "asan"]:
                    a = dict(tier_limits(tier))
                    a.update({"profile": pr.get("profile", profile), "seed": seed})
                    if borrowed:
                        a["focus"] = prop
                    units.append(Unit("hist", cfg, pr["kind"], fl, a, pr.get("cases", 20) * (10 if borrowed else 1), label="probe:%s|hist|%s|%s|%s" % (f["id"], cfg, pr["kind"], fl)))
    return units


def run_hist_check(prop, tier):
    t0 = time.time()
    units = hist_units(prop, tier, vf.SEED)
    if prop in ("C02", "C03", "C04", "C05", "C10"):
        units += layout_units(prop, tier, vf.SEED)
    if prop == "C18":
        # comparisons with empty vectors in every representation (default-constructed, capacity 0, block address shared with
        # another vector): the cmp engine's vector-level pools
        for cfg, k in [("P:u32,P:f32", "std"), ("P:u8,F:u8", "std"), ("P:str,F:str", "s000"), ("C:u64@8,V:u8,P:u8", "std"), ("F:f32,P:u32,C:u64@8,V:f32", "s000"), ("C:u32,V:str,P:Tr8", "s101")]:
            for fl in (["plain", "asan"] if tier == "quick" else ["plain", "asan", "casan"]):
                units.append(Unit("cmp", cfg, k, fl, {"seed": vf.SEED, "focus": "C18"}, 200 if tier == "quick" else 1000, batch=100))
    if prop in ELEMENT_PROPS:
        # these properties speak about standalone ContiguousElements as well
        eu = elem_units(tier, vf.SEED)
        for u in eu:
            u.args["focus"] = prop
        units += eu
    errs = vf.run_units(units)
    return vf.conclude(prop, tier, "exploration", units, errs, HIST_PROPS[prop][1], t0,
                       assumptions=["generated histories respect the documented preconditions (size() < capacity(), payload within the byte budget, count == range length)",
                                    "UBSan alignment and nonnull-attribute checks are off (the library stores at alignment 1 by design)",
                                    "decides only the executions produced: bounded capacity, span length and history length"])


# ---------------------------------------------------------------------------------------------- C20 matrix
MATRIX_CELLS = ["construct(size...)", "construct(size..., allocator)", "default construct", "copy construct", "move construct", "copy assign", "move assign", "emplace_back",
                "pop_back", "erase(position)", "erase(first,last)", "clear", "reserve", "swap", "vector comparisons", "reference comparisons", "element comparisons", "iteration",
                "structured bindings: reference", "structured bindings: const_reference", "structured bindings: element", "reference assignment / swap", "element construction",
                "element assignment / swap / reference = element", "accessors", "allocator type that is an empty final class"]
MATRIX_CONFIGS = [
    # one list per parameter-list category x value-type category
    ("P:u32,P:f32", ["std", "s000"]), ("P:char,P:u32@8", ["s111"]), ("P:str,P:Tr8", ["s010"]), ("P:uptr,P:u16", ["s000"]),
    ("P:u32,F:f32", ["s100"]), ("F:f32@8,P:u32@16,F:f32", ["std"]), ("F:str,P:str", ["s001"]), ("F:uptr,P:uptr", ["s111"]),
    ("P:u32,C:u64@8,V:f32", ["s000", "std"]), ("C:u32,V:u16,P:u8", ["s110"]), ("C:u64@8,V:f32@16,P:u32", ["s011"]), ("C:u64@8,V:str,P:str", ["s000"]), ("C:u64@8,V:uptr,P:uptr", ["stdm"]),
    ("F:f32,P:u32,C:u64@8,V:f32", ["s000d"]), ("F:Tr8,C:u8,V:u16@2,P:Tr4@4", ["s101"]), ("F:uptr,C:u32,V:str", ["s000"]),
]


def matrix_units(tier, seed):
    configs = list(MATRIX_CONFIGS)
    units = []
    if tier == "thorough":
        configs = [(c, sorted(k for k in vf.KINDS if not k.startswith("e"))) for c, _ in configs] + [(c, k) for c, k in sampled_configs(seed, 12)]
    for cfg, kinds in configs:
        for k in kinds:
            for fl in (["asan", "casan"] if tier == "thorough" or True else ["asan"]):
                units.append(Unit("matrix", cfg, k, fl, {"seed": seed}, len(MATRIX_CELLS), batch=len(MATRIX_CELLS)))
    return units


def run_matrix_check(tier):
    """C20: build every (configuration, allocator kind) unit with g++ and clang++; a unit that does not compile is split
    into one unit per cell to find the ill-formed operations (the compiler diagnostic is the witness)."""
    import concurrent.futures as cfu
    t0 = time.time()
    units = matrix_units(tier, vf.SEED)
    ill = []  # (unit, cell index, diagnostic)
    good_units = []

    def try_build(u):
        try:
            u.bin = vf.build(u.engine, u.cfg, u.kind, u.flavour, u.std, u.extra_defs)
            return True
        except vf.BuildError:
            return False
    with cfu.ThreadPoolExecutor(vf.JOBS) as ex:
        ok = list(ex.map(try_build, units))
    split = []
    for u, o in zip(units, ok):
        if o:
            good_units.append(u)
        else:
            for ci in range(len(MATRIX_CELLS)):
                cu = Unit("matrix", u.cfg, u.kind, u.flavour, {"seed": vf.SEED, "from": ci, "to": ci + 1}, 1, extra_defs=("VF_ONLY_OP %d" % ci,), label="%s|cell%d" % (u.label, ci))
                cu.cell = ci
                split.append(cu)

    def try_build_cell(cu):
        try:
            cu.bin = vf.build(cu.engine, cu.cfg, cu.kind, cu.flavour, cu.std, cu.extra_defs)
            return None
        except vf.BuildError as e:
            return str(e)
    with cfu.ThreadPoolExecutor(vf.JOBS) as ex:
        res = list(ex.map(try_build_cell, split))
    harness_errors = []
    for cu, r in zip(split, res):
        if r is None:
            good_units.append(cu)
        else:
            diag = "\n".join(l for l in r.splitlines() if "error" in l)[:1500]
            # a diagnostic that does not mention the library is the harness's own fault
            if "cntgs" not in r:
                harness_errors.append(r[:1000])
            cu.events.append({"t": "viol", "case": cu.cell, "step": 0, "props": "C20", "kind": "ill_formed", "op": MATRIX_CELLS[cu.cell], "pre": vf.cfg_category(cu.cfg), "x": cu.cfg + "/" + cu.kind + "/" + vf.FLAVOURS[cu.flavour][0], "detail": diag, "unit": cu.label})
            cu.case_ends.append({"t": "case_end", "case": cu.cell, "nt": {"C20": 1}, "hash": "ill%s%d" % (cu.label, cu.cell), "trace": ["%s on %s / %s: does not compile" % (MATRIX_CELLS[cu.cell], cu.cfg, cu.kind)]})
    # run what compiled
    jobs = []
    for u in good_units:
        lo = u.args.get("from", 0)
        hi = u.args.get("to", len(MATRIX_CELLS))
        a = dict(u.args)
        a.pop("from", None)
        a.pop("to", None)
        u.args = a
        jobs.append((u, lo, hi))
    with cfu.ThreadPoolExecutor(vf.JOBS) as ex:
        list(ex.map(lambda j: vf.run_batch(*j), jobs))
    all_units = good_units + [cu for cu, r in zip(split, res) if r is not None]
    cells = sum(len(u.case_ends) for u in all_units)
    return vf.conclude("C20", tier, "exploration", all_units, harness_errors,
                       "finite matrix operation x parameter-list category x value-type category x allocator kind: every cell is compiled by g++ and clang++ (a rejected cell is the violation, the diagnostic the witness) and then executed under ASan/UBSan with a postcondition; every cell is distinct and counts as non-trivial",
                       t0, extra_cov={"exhaustive": True, "cells": cells, "cell_names": MATRIX_CELLS, "compilers": ["g++ 12", "clang++ 14"]},
                       assumptions=["well-formedness is observed at build time of the generated unit, the same unit is then executed under the sanitizers (see DESIGN.md C20)"])


# ---------------------------------------------------------------------------------------------- C13 / C14 cmp
CMP_CONFIGS = [
    # memcmp-able for == and < (unsigned byte types), without and with padding
    ("P:u8,F:u8", "std"), ("F:u8", "s000"), ("P:u8,P:byte", "s111"), ("P:u8,P:u8@4", "s000"), ("F:u8@8,P:u8", "s010"), ("P:byte@2,F:byte@4", "s100"),
    # memcmp-able for == only (integral, pointer), without and with padding
    ("P:u32,P:i16", "s000"), ("P:u16,P:u32@8", "std"), ("P:ptr,F:u64", "s001"), ("P:bool,P:char,P:i8", "s000"), ("P:i32@16,F:i8", "s000d"),
    # VaryingSize byte lists
    ("C:u8,V:u8", "s000"), ("C:u64@8,V:u8,P:u8", "std"), ("C:u32,V:u16,P:u8", "s110"), ("F:u8,C:u8,V:u8", "s011"),
    # element-wise path
    ("P:u32,P:f32", "std"), ("P:f64,F:f32", "s000"), ("P:str,F:str", "s000"), ("C:u32,V:str,P:Tr8", "s101"), ("P:Tr4,F:Tr8", "s000"), ("P:B3,P:B12@4", "s111d"),
    ("F:f32,P:u32,C:u64@8,V:f32", "s000"), ("P:u8,C:u16,V:f32@8,P:i8", "std"), ("C:u16,V:f64,C:u8,V:u8", "s000"),
    # class types whose == / < are not bytewise although they have no padding bits
    ("P:M8,F:M8", "s000"), ("P:u8,P:M8,C:u8,V:M8", "std"), ("P:Amp8,F:Amp8", "s000"),
]
CMP_RULE = {
    "C13": "per case a pool of 7 logical elements (equal pair, one-item differences, prefix-related spans, values {0,1,2,255} and for floating fields also -0.0 and NaN) and 10 logical vectors over them, each materialised 3x (exact / spare capacity, 3 junk patterns, 2 arenas, 2 allocator types; references, const references, elements); all ordered pairs in 13 operand-kind combinations; ==/!= compared with field-wise equality of freshly made values; non-trivial: the pool contains a pair differing in exactly one item or prefix-related; distinct: hash of the pool",
    "C14": "same pools as C13; the six operators on all ordered pairs (13 operand-kind combinations for elements, 5 for vectors) and all triples: >, <=, >= identities, irreflexive, asymmetric, transitive, < implies !=, == excludes <, independence of operand kind / capacity / junk / allocator, vector < against lexicographical comparison under the observed element-level <",
}


CMP_FAMILY_TYPES = ["u8", "u16", "u32", "u64", "byte", "char", "bool", "i8", "i32", "ptr", "f32", "B3", "M8"]


def cmp_family(rng, count):
    """Parameter lists of mostly memcmp-comparable types with random AlignAs values: runs of bytewise-compared parameters
    with every kind of padding in front of, between and behind them."""
    out, seen, guard = [], set(), 0
    aligns = [0, 0, 1, 2, 4, 4, 8, 8, 16]
    while len(out) < count and guard < count * 50:
        guard += 1
        fields = []
        for _ in range(rng.randint(2, 4)):
            k = rng.choice("PPPFV")
            t = rng.choice(CMP_FAMILY_TYPES[:10] if rng.random() < 0.85 else CMP_FAMILY_TYPES)
            if k == "V":
                fields.append(("C", rng.choice(["u8", "u16", "u32", "u64"]), rng.choice([0, 0, 2, 4, 8])))
            fields.append((k, t, rng.choice(aligns)))
        if len(fields) > 6:
            continue
        s = ",".join("%s:%s%s" % (k, t, "@%d" % a if a else "") for k, t, a in fields)
        if s not in seen:
            seen.add(s)
            out.append(s)
    return out


def cmp_units(prop, tier, seed):
    configs = list(CMP_CONFIGS)
    frng = random.Random(seed * 15485863 + 11)
    kinds = ["std", "s000", "s111", "s010"]
    configs += [(c, kinds[i % 4]) for i, c in enumerate(cmp_family(frng, 16 if tier == "quick" else 80))]
    if tier == "thorough":
        configs += [(c, k[0]) for c, k in sampled_configs(seed + 100, 40) if vf.cfg_copyable(c)]
    cases = 400 if tier == "quick" else 2500
    flavours = ["plain", "asan"] if tier == "quick" else ["plain", "asan", "casan"]
    if os.environ.get("VERIF_CASES"):
        cases = int(os.environ["VERIF_CASES"])
    units = []
    for cfg, k in configs:
        for fl in flavours:
            units.append(Unit("cmp", cfg, k, fl, {"seed": seed}, cases if fl != "casan" else cases // 3, batch=100))
    return units


def run_cmp_check(prop, tier):
    t0 = time.time()
    units = cmp_units(prop, tier, vf.SEED)
    errs = vf.run_units(units)
    return vf.conclude(prop, tier, "exploration", units, errs, CMP_RULE[prop], t0,
                       assumptions=["equality oracle: the value type's own operator== on freshly constructed values", "no definition of element-level < is imposed, only the stated axioms and consistency",
                                    "value types compared by identity (std::unique_ptr) are not part of the pools"])


# ---------------------------------------------------------------------------------------------- C11 ref
REF_CONFIGS = [
    # shapes of the trivially-assignable / swappable run tables: T N TT TN NT TNT NTN TTN, then spans
    ("P:u32", "std"), ("P:str", "s000"), ("P:u32,P:u16", "s000"), ("P:u32,P:str", "std"), ("P:str,P:u8", "s111"), ("P:u8,P:Tr8,P:u16", "s000"),
    ("P:str,P:u32,P:Tr4", "s010"), ("P:u8,P:u16@2,P:str", "s000"), ("F:u16,P:str,F:u8", "s000"), ("C:u32,V:u16,P:str", "s100"), ("C:u8,V:Tr4,P:u8@4", "s000"),
    ("F:uptr,P:uptr", "s000"), ("C:u64@8,V:uptr,P:u16", "std"), ("F:f32@8,P:u32@16,F:f32", "s001"), ("P:u32,C:u64@8,V:f32", "s000"), ("F:Tr8,C:u8,V:u16@2,P:Tr4@4", "s000"),
    ("P:Amp8,P:u16,P:Amp8", "s000"), ("F:Ctm8,P:u16", "s000"), ("P:u16,P:Cnt8,F:Cnt8", "s000"), ("P:Cnt8,C:u8,V:Cnt8", "std"), ("P:TrMv8,F:u8,P:TrMv8", "s011"), ("C:u64@8,V:str,P:str", "s000"), ("P:bool,P:enumE,F:ptr,P:B12@4", "s000d"), ("C:u16,V:B3,C:u32,V:u64@8", "s000"),
]
REF_RULE = "per case one vector (1..7 elements of equal field sizes) and a model; sequences of <= 30 steps: writes through 8 access paths each cross-read through up to 16 paths, reference copy / move assignment in 5 forms, swap / iter_swap, std::rotate / reverse / swap_ranges against the same algorithm on the model, iterator arithmetic and comparisons against index arithmetic for all index pairs in [0, size()]; non-trivial: a permuting algorithm moved >= 2 elements; distinct: hash of the operation list"


def ref_units(tier, seed):
    configs = list(REF_CONFIGS)
    if tier == "thorough":
        configs += [(c, k[0]) for c, k in sampled_configs(seed + 200, 40) if len(vf.parse_cfg(c)) <= 7]
    cases = 800 if tier == "quick" else 4000
    if os.environ.get("VERIF_CASES"):
        cases = int(os.environ["VERIF_CASES"])
    flavours = ["plain", "asan"] if tier == "quick" else ["plain", "asan", "casan"]
    units = []
    for cfg, k in configs:
        for fl in flavours:
            a = {"seed": seed, "max-n": 7 if tier == "quick" else 14, "max-steps": 30, "focus": "C11"}
            units.append(Unit("ref", cfg, k, fl, a, cases if fl != "casan" else cases // 3, batch=200))
    return units


REF_HIST_CONFIGS = [("P:u32,F:f32", "s000"), ("F:f32,P:u32,F:f32", "std"), ("F:str,P:str", "s110"), ("F:Tr4,P:u8,F:Tr24@8", "s000"), ("F:f32,P:u32,C:u64@8,V:f32", "s000"),
                    ("P:u32,C:u64@8,V:f32", "s000"), ("C:u32,V:Tr4,P:Tr24", "s110"), ("P:Tr8,P:u16,P:str", "s010")]


def ref_hist_units(tier, seed):
    """Iterator objects that outlive the states of a pool of vectors (reallocation, assignment between vectors of other
    fixed sizes, destruction) and are then assigned a new position: the hist engine's iterator_reseat operation."""
    units = []
    for cfg, k in REF_HIST_CONFIGS:
        for fl in (["plain", "asan"] if tier == "quick" else ["plain", "asan", "casan"]):
            a = dict(tier_limits(tier))
            a.update({"profile": "copymove", "seed": seed, "focus": "C11"})
            avoid = ",".join(vf.avoid_tokens(vf.load_known()))
            if avoid:
                a["avoid"] = avoid
            units.append(Unit("hist", cfg, k, fl, a, 1000 if tier == "quick" else 3000, batch=100))
    return units


def run_ref_check(tier):
    t0 = time.time()
    units = ref_units(tier, vf.SEED) + ref_hist_units(tier, vf.SEED)
    errs = vf.run_units(units)
    return vf.conclude("C11", tier, "exploration", units, errs, REF_RULE, t0,
                       assumptions=["reference assignment / swap only between elements of equal field sizes (the documented precondition)", "a prvalue mutable reference on the right-hand side is an rvalue mutable reference: the assignment moves",
                                    "moved-from std::string contents are not compared"])


# ---------------------------------------------------------------------------------------------- C12 elem
ELEM_CONFIGS = [
    ("P:u32,P:f32", "std"), ("P:char,P:u32@8", "s000"), ("P:Tr8,P:u16,P:str", "s010"), ("P:u32,F:f32", "s100"), ("F:f32@8,P:u32@16,F:f32", "s001"), ("F:uptr,P:uptr", "s000"),
    ("F:str,P:str", "s110"), ("F:Tr4,P:u8,F:Tr24@8", "s011"), ("P:u32,C:u64@8,V:f32", "s000"), ("P:u32,C:u64@8,V:f32,C:u64@8,V:f32", "s111"), ("C:u64@8,V:f32@16,P:u32", "std"),
    ("C:u8,V:u8,P:u16@4", "s101"), ("C:u64@8,V:uptr,P:uptr", "s000"), ("C:u64@8,V:str,P:str", "stdm"), ("C:u32,V:Tr4,P:Tr24", "s000"), ("P:u8,C:u16,V:Tr8@8,P:TrMv8", "s010"),
    ("F:f32,P:u32,C:u64@8,V:f32", "s000d"), ("F:Tr8,C:u8,V:u16@2,P:Tr4@4", "s111d"), ("C:u32,V:Tr8,C:u8,V:str", "s000"), ("C:u16,V:B3,C:u32,V:u64@8", "s110"),
    # always-equal allocators with distinguishable instances: memory is interchangeable, get_allocator() still follows the traits
    ("P:Cnt8,F:Cnt8", "s000"), ("P:Cnt8,C:u32,V:Cnt8", "s100"), ("P:Amp8,P:u32", "s000"), ("P:Amp8,C:u32,V:Amp8", "s100"), ("P:Ctm8,C:u32,V:Ctm8", "s000"), ("F:Ctm8,P:u16", "s010"),
    ("P:u32,F:f32", "e100"), ("F:Tr4,P:u8,F:Tr24@8", "e111"), ("C:u32,V:Tr4,P:Tr24", "e100"), ("P:Tr8,P:u16,P:str", "e010"), ("P:u32,C:u64@8,V:f32", "e001"), ("F:str,P:str", "e000"),
]
ELEM_RULE = "per case one source vector (2..5 elements in two size classes plus outliers) and a pool of 4 elements; sequences of <= 30 steps: construction from lvalue / const / rvalue references with and without allocator, copy / move / allocator-extended construction from elements, copy / move assignment (also into moved-from elements), element = reference and reference = element of equal sizes, swap, mutation of either side, destruction; after every step values, independence, allocator identity, block ownership, layout, alignment, object registry and ledger; non-trivial: >= 2 assignments between elements of different field sizes (lists without VaryingSize: >= 2 assignments); distinct: hash of the operation list"


def elem_units(tier, seed):
    configs = list(ELEM_CONFIGS)
    if tier == "thorough":
        configs = [(c, k) for c, k in configs] + [(c, "s000") for c, _ in ELEM_CONFIGS[:8]] + [(c, k[0]) for c, k in sampled_configs(seed + 300, 40)]
    cases = 800 if tier == "quick" else 4000
    if os.environ.get("VERIF_CASES"):
        cases = int(os.environ["VERIF_CASES"])
    flavours = ["plain", "asan"] if tier == "quick" else ["plain", "asan", "casan"]
    units = []
    seen = set()
    for cfg, k in configs:
        if (cfg, k) in seen:
            continue
        seen.add((cfg, k))
        for fl in flavours:
            a = {"seed": seed, "max-span": 5 if tier == "quick" else 12, "max-steps": 30 if tier == "quick" else 60}
            units.append(Unit("elem", cfg, k, fl, a, cases if fl != "casan" else cases // 3, batch=200))
    return units


def run_elem_check(tier):
    t0 = time.time()
    units = elem_units(tier, vf.SEED)
    for u in units:
        u.args["focus"] = "C12"  # monitors owned only by other properties do not cut the case before C12's own ones have looked
    errs = vf.run_units(units)
    return vf.conclude("C12", tier, "exploration", units, errs, ELEM_RULE, t0,
                       assumptions=["'element' is Vector::value_type, as in the property statement", "element = reference and reference = element only between equal field sizes (documented precondition)",
                                    "swap of elements only between equal allocators unless propagate_on_container_swap"])


# ---------------------------------------------------------------------------------------------- C15 emplace
EMPLACE_GROUPS = 6
EMPLACE_RULE = "finite grid, enumerated completely: 27 type pairs (incl. a pointer to a base at non-zero offset from a pointer to derived, sources whose conversion depends on the value category and a type with trivial copy but user-provided move) (same type, integral / floating conversions, bool, enums, classes with converting constructor or conversion operator, std::string, pointers, instrumented and move-only types) x 16 source forms (std::array / std::vector / C array / std::list as lvalue and rvalue, generated input range, single-pass range whose begin() starts the pass, pointer, contiguous, node, reverse and deque iterators, move_iterator, counting input iterator) x FixedSize / VaryingSize x lengths 0..5, as C++17 and C++20; stored values compared with static_cast<T>(source item) computed beforehand, lvalue sources compared before / after, moves and copies counted by the instrumented type, consumption counted by the input iterator; non-trivial: length > 0; distinct: the cell"


def emplace_units(tier, seed):
    units = []
    stds = ["c++17", "c++20"]
    flavours = ["asan", "plain"] if tier == "quick" else ["asan", "plain", "casan"]
    for g in range(EMPLACE_GROUPS):
        for std in stds:
            for fl in flavours:
                if fl == "casan" and std == "c++20":
                    continue  # clang 14 cannot compile libstdc++ 12's <ranges> as used by memory.hpp (a toolchain limitation, not the library's)
                units.append(Unit("emplace", None, None, fl, {"seed": seed}, 100000, batch=100000, std=std, extra_defs=("VF_GROUP %d" % g,), label="emplace|group%d|%s|%s" % (g, std, fl)))
    # the grid has two fixed parameter lists; what emplace_back stores must not depend on the list around the span either (a span
    # that starts misaligned behind a narrow count, followed by a parameter that relies on the span's trailing alignment; empty,
    # short and long sources): layout units whose first fill is owned by C15 (contiguous sources: rvalue, const lvalue, wider type)
    for fl in flavours:
        a = {"seed": seed, "max-cap": 6 if tier == "quick" else 12, "max-span": 5 if tier == "quick" else 11, "focus": "C15"}
        n_cases = len(LAYOUT_C15) * (40 if tier == "quick" else 200)
        units.append(Unit("layout", ";".join(LAYOUT_C15), None, fl, a, n_cases if fl != "casan" else n_cases // 3, batch=len(LAYOUT_C15) * 5, label="layout|c15|%s" % fl))
    return units


def run_emplace_check(tier):
    t0 = time.time()
    units = emplace_units(tier, vf.SEED)
    errs = vf.run_units(units)
    return vf.conclude("C15", tier, "exploration", units, errs, EMPLACE_RULE, t0, extra_cov={"exhaustive": True},
                       assumptions=["expected value: static_cast<T>(source item) evaluated by the harness on a copy of the source item", "moved-from std::string contents are not inspected",
                                    "the count argument of a VaryingSize parameter equals the range length (documented precondition)"])


# ---------------------------------------------------------------------------------------------- C17 fault
FAULT_CONFIGS = [
    ("P:u32,P:f32", ["s000"]), ("P:Tr8,P:u16,P:str", ["s000", "std"]), ("P:u32,F:f32@32", ["s100"]), ("F:Tr4,P:u8,F:Tr24@8", ["s000", "s010"]), ("F:str,P:str", ["s001"]),
    ("F:uptr,P:uptr", ["s000"]), ("P:u32,C:u64@8,V:f32", ["s000", "s111"]), ("C:u32,V:Tr4,P:Tr24", ["s000", "s110"]), ("C:u64@8,V:str,P:str", ["s000", "stdm"]),
    ("C:u64@8,V:uptr,P:uptr", ["s000"]), ("F:Tr8,C:u8,V:u16@2,P:Tr4@4", ["s000", "s101"]), ("P:u8,C:u16,V:Tr8@8,P:TrMv8", ["s000"]), ("F:f32,P:u32,C:u64@8,V:f32", ["s011"]),
]
FAULT_RULE = "fault enumeration: for each generated pre-state (source / target vectors empty, partly filled or full, elements of differing sizes) and each of 9 operations (construct, reserve, copy construct, copy assign, move assign between unequal allocators, element from reference, element copy, element copy / move assign) the operation runs fault-free to count its k allocator calls and is then repeated from the identical pre-state with allocation i throwing std::bad_alloc for EVERY i in 1..k (exhaustive over i, sampled over pre-states); after the throw: source unchanged (reserve, copy), operands readable with size() == live objects, re-assignable, and after destroying everything the ledger and the object registry balance; std::terminate is a violation; non-trivial: at least one fault was injected; distinct: (operation, pre-state seed)"


def fault_units(tier, seed):
    configs = list(FAULT_CONFIGS)
    if tier == "thorough":
        configs = [(c, sorted(set(k + ["s000", "s100", "s010", "s001", "s111", "std"]))) for c, k in configs] + [(c, k) for c, k in sampled_configs(seed + 400, 30)]
    cases = 540 if tier == "quick" else 3600
    if os.environ.get("VERIF_CASES"):
        cases = int(os.environ["VERIF_CASES"])
    flavours = ["plain", "asan"] if tier == "quick" else ["plain", "asan", "casan"]
    units = []
    for cfg, kinds in configs:
        for k in kinds:
            for fl in flavours:
                a = {"seed": seed, "max-cap": 5 if tier == "quick" else 10, "max-span": 4 if tier == "quick" else 9}
                units.append(Unit("fault", cfg, k, fl, a, cases if fl != "casan" else cases // 3, batch=180))
    return units


def run_fault_check(tier):
    t0 = time.time()
    units = fault_units(tier, vf.SEED)
    errs = vf.run_units(units)
    return vf.conclude("C17", tier, "fault_enumeration", units, errs, FAULT_RULE, t0,
                       assumptions=["only allocator failures are injected (C17 says nothing about throwing value types)", "the allocator throws std::bad_alloc, as std::allocator does"])


# ---------------------------------------------------------------------------------------------- C19 race
RACE_CONFIGS = ["P:u32,P:f32", "P:u32,F:f32", "P:u32,C:u64@8,V:f32", "C:u64@8,V:str,P:str", "F:str,P:str", "F:f32,P:u32,C:u64@8,V:f32", "P:char,P:u32@8", "C:u8,V:u8,P:u16@4",
                "P:B3,P:B12@4", "F:u8,C:u8,V:u8", "P:u32,C:u64@8,V:f32@8,C:u64@8,V:f32@16", "F:f32@8,P:u32@16,F:f32"]
RACE_RULE = "per case 2 shared const vectors and 1 shared element; reader threads loop over const operations (element access, iteration, size / capacity / data queries, all comparisons, copy construction, element construction from references) picked at random with no synchronisation between operations, writer threads mutate private copies (re-copied from the shared vectors); ThreadSanitizer (g++ and clang++) reports with a cntgs:: frame are violations; non-trivial: >= 20 distinct ordered pairs of operation kinds were observed overlapping in time (relaxed atomic activity counters); distinct: (configuration, seed, case)"


def race_units(tier, seed):
    configs = RACE_CONFIGS[:6] if tier == "quick" else RACE_CONFIGS
    units = []
    threads, rounds, cases = (8, 4000, 6) if tier == "quick" else (16, 12000, 10)
    if os.environ.get("VERIF_CASES"):
        cases = int(os.environ["VERIF_CASES"])
    for cfg in configs:
        for fl in ["tsan", "ctsan"]:
            units.append(Unit("race", cfg, "std", fl, {"seed": seed, "threads": threads, "rounds": rounds}, cases, batch=2, extra_defs=("VF_NO_LIBCALL 1",), timeout=1500))
    return units


def run_race_check(tier):
    t0 = time.time()
    units = race_units(tier, vf.SEED)
    errs = vf.run_units(units)
    # a report without a cntgs:: frame is the harness's own race: the run proves nothing
    for u in units:
        for ev in u.events:
            if ev.get("props") == "HARNESS":
                u.errors.append("ThreadSanitizer report without a cntgs:: frame (harness / libstdc++): " + ev.get("frame", ""))
    return vf.conclude("C19", tier, "exploration", units, errs, RACE_RULE, t0,
                       assumptions=["ThreadSanitizer sees only races between accesses that actually execute in the run", "value types are scalars, trivially copyable structs and std::string (the instrumented type's registry is not thread-safe and is not used here)"])


# ---------------------------------------------------------------------------------------------- layout engine (C02-C05)
LAYOUT_TYPES = ["u8", "u16", "u32", "u64", "f32", "B3", "B12", "char", "bool", "M8"]
LAYOUT_ODD = ["B12", "B20", "B24", "B6", "B5", "B3", "B12", "B24"]
LAYOUT_CORE = [
    # the suite's typedefs and the shapes behind the layout defects found so far
    "P:u32,P:f32", "P:char,P:u32@8", "P:u32,F:f32", "F:f32,P:u32,F:f32", "P:u32,F:f32@32", "F:f32@8,P:u32@16,F:f32", "F:f32@32,F:u32,P:u32", "P:u32,C:u64@8,V:f32",
    "P:u32,C:u64@8,V:f32,C:u64@8,V:f32", "C:u64@8,V:f32@16,P:u32", "P:u32,C:u64@8,V:f32@8,C:u64@8,V:f32@16", "F:f32,P:u32,C:u64@8,V:f32", "F:f32@16,P:u32,C:u64@8,V:f32@8",
    "P:u8,C:u64@8,V:char,C:i32,V:ptr@64,C:u32,V:u32,F:u64@4", "P:u8,F:u16@16,P:u8,F:u32@4,P:u64@8",
    "C:u8,V:u8,P:u16@4", "C:u16,V:B3,C:u32,V:u64@8", "C:u64,V:u8,P:u64@8", "P:byte,C:u32,V:char,F:i16@2,C:u16,V:i16", "F:B12@16", "F:u64@1,F:u8",
    # spans of values whose size is no power of two between strongly aligned neighbours
    "P:Amp8,F:Amp8@16,P:u8", "C:u32,V:bptr", "P:f64@8,F:B12@8,P:f64@8", "C:u64@8,V:B12", "P:u8,C:u32,V:B24@16,P:u32@16", "F:B20@8,C:u16,V:B6@8,P:u64@8", "C:u64@8,V:B12@8",
]
LAYOUT_C15 = ["C:u8,V:u32@4,F:u32@4", "C:u8,V:u64@8,P:u64@8", "P:u8,F:u16@2,P:u16@2", "C:u8,V:f32@4,C:u32@4,V:u16", "C:u16,V:f64@8,P:f64", "P:u8,F:u32@4,F:u32@4", "C:u8,V:u32,P:u32", "P:u8,F:u64,P:u64",
              "C:u8,V:B12@4,F:u32@4", "P:u16,F:B6@2,F:u16@2,C:u8,V:u64@8,P:u64@8"]
LAYOUT_BIG = ["C:u32,V:char,P:f64@512", "P:u8,F:char,P:u32@1024", "C:u16,V:u8,F:u16@512,P:u8", "F:u64@8,P:u32", "P:u16,F:char", "F:B24,F:u16@4", "C:u32,V:u64@8,P:u8", "P:u8,F:B12@512,F:u8,C:u32,V:u16@1024"]


def layout_family(rng, count):
    """Parameter lists built around one or two spans: prefix / span (kind, type, alignment) / suffix, all trivially copyable."""
    out = []
    aligns = [0, 0, 1, 2, 4, 8, 16, 32, 64]
    seen = set()
    guard = 0
    while len(out) < count and guard < count * 50:
        guard += 1
        fields = []
        # a quarter of the lists are built around spans of values whose size is no power of two and that start (and are
        # followed by something) strongly aligned: the end of such a span is only as aligned as the lowest set bit of the size
        odd = len(out) % 4 == 3
        span_types = LAYOUT_ODD if odd else LAYOUT_TYPES
        span_aligns = [0, 4, 8, 8, 16, 16, 32] if odd else aligns
        next_aligns = [0, 4, 8, 8, 16, 16] if odd else aligns
        for _ in range(rng.randint(0, 2)):
            fields.append(("P", rng.choice(LAYOUT_TYPES), rng.choice(aligns)))
        for _ in range(rng.randint(1, 2)):
            k = rng.choice("FVV")
            if k == "V":
                fields.append(("C", rng.choice(vf.COUNT_TYPES), rng.choice([0, 0, 2, 4, 8, 8])))
            fields.append((k, rng.choice(span_types), rng.choice(span_aligns)))
            for _ in range(rng.randint(0, 1)):
                fields.append(("P", rng.choice(LAYOUT_TYPES + (["u64", "f32"] if odd else [])), rng.choice(next_aligns)))
        if len(fields) > 7:
            continue
        fields = first_gets_max_alignment(rng, fields)
        s = ",".join("%s:%s%s" % (k, t, "@%d" % a if a else "") for k, t, a in fields)
        if s in seen:
            continue
        seen.add(s)
        out.append(s)
    return out


def layout_units(prop, tier, seed):
    rng = random.Random(seed * 104729 + 7)
    n = 72 if tier == "quick" else 360
    configs = LAYOUT_CORE + layout_family(rng, n)
    per_unit = 12
    cases_per_cfg = 30 if tier == "quick" else 120
    flavours = ["asan", "plain"] if tier == "quick" else ["asan", "plain", "casan"]
    units = []
    for i in range(0, len(configs), per_unit):
        grp = configs[i:i + per_unit]
        for fl in flavours:
            a = {"seed": seed, "max-cap": 6 if tier == "quick" else 12, "max-span": 5 if tier == "quick" else 11}
            n_cases = len(grp) * cases_per_cfg
            units.append(Unit("layout", ";".join(grp), None, fl, a, n_cases if fl != "casan" else n_cases // 3, batch=len(grp) * 4, label="layout|group%d|%s" % (i // per_unit, fl)))
    # 'big' unit: alignments of 512 / 1024 behind more than 256 bytes of the same element, spans of hundreds of items, blocks of
    # 16 KiB and more (the histories elsewhere stay below a few hundred bytes per element and a few KiB per block)
    for fl in flavours:
        a = {"seed": seed, "max-cap": 8 if tier == "quick" else 24, "max-span": 600 if tier == "quick" else 1500}
        n_cases = len(LAYOUT_BIG) * (25 if tier == "quick" else 100)
        units.append(Unit("layout", ";".join(LAYOUT_BIG), None, fl, a, n_cases if fl != "casan" else n_cases // 3, batch=len(LAYOUT_BIG) * 5, label="layout|big|%s" % fl))
    return units


def setup():
    units = []
    for prop in ["C01"]:
        units += hist_units(prop, "quick", vf.SEED)
    units += layout_units("C02", "quick", vf.SEED)
    units += matrix_units("quick", vf.SEED)
    units += cmp_units("C13", "quick", vf.SEED) + ref_units("quick", vf.SEED) + elem_units("quick", vf.SEED)
    units += emplace_units("quick", vf.SEED) + fault_units("quick", vf.SEED) + race_units("quick", vf.SEED)
    errs = []
    t0 = time.time()
    import concurrent.futures as cfu
    seen = {}
    for u in units:
        seen[(u.engine, u.cfg, u.kind, u.flavour, u.std, u.extra_defs)] = u

    def b(u):
        try:
            vf.build(u.engine, u.cfg, u.kind, u.flavour, u.std, u.extra_defs)
        except vf.BuildError as e:
            errs.append(str(e))
    with cfu.ThreadPoolExecutor(vf.JOBS) as ex:
        list(ex.map(b, seen.values()))
    sys.stderr.write("[vf] setup: %d binaries in %.1fs, %d build errors\n" % (len(seen), time.time() - t0, len(errs)))
    for e in errs[:5]:
        sys.stderr.write(e[:2000] + "\n")
    return 0 if not errs else 2


def units_for(prop, tier, seed):
    if prop == "LAYOUT":
        return layout_units("C02", tier, seed)
    if prop in HIST_PROPS:
        return hist_units(prop, tier, seed) + (layout_units(prop, tier, seed) if prop in ("C02", "C03", "C04", "C05", "C10") else []) + (elem_units(tier, seed) if prop in ELEMENT_PROPS else [])  # (C18's cmp units: see run_hist_check)
    if prop in ("C13", "C14"):
        return cmp_units(prop, tier, seed)
    if prop == "C11":
        return ref_units(tier, seed) + ref_hist_units(tier, seed)
    if prop == "C12":
        return elem_units(tier, seed)
    if prop == "C15":
        return emplace_units(tier, seed)
    if prop == "C17":
        return fault_units(tier, seed)
    if prop == "C19":
        return race_units(tier, seed)
    raise KeyError(prop)


def run_check(prop, tier):
    if prop in HIST_PROPS:
        return run_hist_check(prop, tier)
    if prop == "C20":
        return run_matrix_check(tier)
    if prop in ("C13", "C14"):
        return run_cmp_check(prop, tier)
    if prop == "C11":
        return run_ref_check(tier)
    if prop == "C12":
        return run_elem_check(tier)
    if prop == "C15":
        return run_emplace_check(tier)
    if prop == "C17":
        return run_fault_check(tier)
    if prop == "C19":
        return run_race_check(tier)
    sys.stderr.write("no check for %s\n" % prop)
    return 2


def replay(path):
    with open(path) as f:
        r = json.load(f)
    binp = vf.build(r["engine"], r["cfg"], r["kind"], r["flavour"], r.get("std", "c++17"), tuple(r.get("extra_defs", [])))
    u = Unit(r["engine"], r["cfg"], r["kind"], r["flavour"], r["args"], 0)
    u.bin = binp
    case = r["case"]
    env = dict(os.environ)
    env.update(vf.RUN_ENV)
    p = subprocess.run(u.argv(case, case + 1, verbose=True), env=env)
    return 0 if p.returncode == 0 else 1
