#!/usr/bin/env python3
"""Driver of the runtime-monitoring checks for Tradias/contiguous.

  python3 vf.py setup                      pre-build the quick-tier binaries
  python3 vf.py check <Cnn> quick|thorough run one property check (exit 0 held / 1 violation / 2 inconclusive)
  python3 vf.py replay <path>              rebuild and re-run the case recorded in a replay file, verbosely
  python3 vf.py selftest ...               (see selftest.py)

Everything is rebuilt from $VERIF_REPO (default /repo) when its sources changed: the cache key of a binary is the hash of
the library sources, the harness sources, the configuration and the flags.
"""
import concurrent.futures as cf
import hashlib
import json
import os
import re
import shutil
import signal
import subprocess
import sys
import threading
import time

ROOT = os.path.dirname(os.path.abspath(__file__))
REPO = os.environ.get("VERIF_REPO", "/repo")
# binaries built from another tree than /repo (self-validation against scratch copies) get their own cache directory
BUILD = os.path.join(ROOT, "build") if REPO == "/repo" else os.path.join(ROOT, "build", "alt-" + hashlib.sha1(REPO.encode()).hexdigest()[:8])
JOBS = int(os.environ.get("VERIF_JOBS", "16"))
SEED = int(os.environ.get("VERIF_SEED", "1"))


# ---------------------------------------------------------------------------------------------- configurations
TYPES = {
    "u8": "uint8_t", "i8": "int8_t", "char": "char", "byte": "std::byte", "u16": "uint16_t", "i16": "int16_t",
    "u32": "uint32_t", "i32": "int32_t", "u64": "uint64_t", "i64": "int64_t", "f32": "float", "f64": "double",
    "ptr": "int*", "bool": "bool", "enumE": "vf::EnumE", "B3": "vf::B3", "B12": "vf::B12", "M8": "vf::Mod8",
    "B5": "vf::B5", "B6": "vf::B6", "B20": "vf::B20", "B24": "vf::B24",
    "Ctm8": "vf::CopyTrivMove8", "Amp8": "vf::Amp8", "bptr": "vf::BasePtr", "Cnt8": "vf::Cnt8",
    "Tr4": "vf::Tracked<4>", "Tr8": "vf::Tracked<8>", "Tr24": "vf::Tracked<24>", "TrMv8": "vf::Tracked<8, false>",
    "str": "std::string", "uptr": "std::unique_ptr<int>",
}
SIZES = {"u8": 1, "i8": 1, "char": 1, "byte": 1, "u16": 2, "i16": 2, "u32": 4, "i32": 4, "u64": 8, "i64": 8, "f32": 4,
         "f64": 8, "ptr": 8, "bool": 1, "enumE": 1, "B3": 3, "B12": 12, "B5": 5, "B6": 6, "B20": 20, "B24": 24, "Ctm8": 8, "Amp8": 8, "bptr": 8, "Cnt8": 8, "M8": 1, "Tr4": 4, "Tr8": 8, "Tr24": 24, "TrMv8": 8,
         "str": 32, "uptr": 8}
NONTRIVIAL = {"Tr4", "Tr8", "Tr24", "TrMv8", "str", "uptr", "Ctm8", "Cnt8"}
MOVEONLY = {"TrMv8", "uptr"}
ALLOCATING = {"str", "uptr"}
COUNT_TYPES = ["u8", "u16", "u32", "u64", "i32", "i64"]


def parse_cfg(s):
    out = []
    for tok in s.split(","):
        kind, rest = tok.split(":")
        if "@" in rest:
            t, a = rest.split("@")
            a = int(a)
        else:
            t, a = rest, 0
        assert kind in "PCFV" and t in TYPES, tok
        out.append((kind, t, a))
    # a V must directly follow its C
    for i, (k, t, a) in enumerate(out):
        if k == "V":
            assert i > 0 and out[i - 1][0] == "C", s
        if k == "C":
            assert i + 1 < len(out) and out[i + 1][0] == "V", s
    return out


def cfg_cpp(s):
    return "vf::Config<" + ", ".join("vf::%s<%s, %d>" % (k, TYPES[t], a) for k, t, a in parse_cfg(s)) + ">"


def cfg_category(s):
    if ";" in s:
        return "many"
    c = parse_cfg(s)
    nf = sum(1 for k, _, _ in c if k == "F")
    nv = sum(1 for k, _, _ in c if k == "V")
    cat = "plain" if nf == 0 and nv == 0 else "fixed" if nv == 0 else "varying" if nf == 0 else "mixed"
    if any(a for _, _, a in c):
        cat += "+align"
    if any(t in MOVEONLY for _, t, _ in c):
        cat += "+moveonly"
    elif any(t in NONTRIVIAL for _, t, _ in c):
        cat += "+nontrivial"
    else:
        cat += "+trivial"
    return cat


def cfg_copyable(s):
    return not any(t in MOVEONLY for _, t, _ in parse_cfg(s))


def cfg_never_allocates(s):
    return not any(t in ALLOCATING for _, t, _ in parse_cfg(s))


KINDS = {
    # name: (always_equal, pocca, pocma, pocs, soccc_default)
    "std": (1, 0, 0, 0, 0),
    "stdm": (1, 0, 1, 0, 0),
    "s000": (0, 0, 0, 0, 0), "s001": (0, 0, 0, 1, 0), "s010": (0, 0, 1, 0, 0), "s011": (0, 0, 1, 1, 0),
    "s100": (0, 1, 0, 0, 0), "s101": (0, 1, 0, 1, 0), "s110": (0, 1, 1, 0, 0), "s111": (0, 1, 1, 1, 0),
    "s000d": (0, 0, 0, 0, 1), "s111d": (0, 1, 1, 1, 1),
    # always-equal allocators whose instances carry a label outside operator==
    "e000": (1, 0, 0, 0, 0, 1), "e100": (1, 1, 0, 0, 0, 1), "e010": (1, 0, 1, 0, 0, 1), "e001": (1, 0, 0, 1, 0, 1), "e111": (1, 1, 1, 1, 0, 1),
}


def kind_cpp(k):
    return "vf::Kind<" + ", ".join("true" if x else "false" for x in KINDS[k]) + ">"


COMMON = ["-I" + os.path.join(REPO, "src"), "-I" + os.path.join(ROOT, "harness", "include"), "-DCNTGS_VERIF",
          "-Wno-unused-parameter"]
SAN = ["-fno-omit-frame-pointer", "-fsanitize=address,undefined", "-fno-sanitize=alignment,nonnull-attribute,returns-nonnull-attribute",
       "-fno-sanitize-recover=all"]
FLAVOURS = {
    "plain": ("g++", ["-O1", "-g1"]),
    "asan": ("g++", ["-O1", "-g1"] + SAN),
    "casan": ("clang++-14", ["-O1", "-g1"] + SAN + ["-fno-sanitize=object-size"]),
    "tsan": ("g++", ["-O1", "-g1", "-fsanitize=thread"]),
    "ctsan": ("clang++-14", ["-O1", "-g1", "-fsanitize=thread"]),
    "cov": ("g++", ["-O0", "-g1", "--coverage"]),
}
RUN_ENV = {
    "ASAN_OPTIONS": "abort_on_error=1:detect_leaks=0:allocator_may_return_null=1:handle_abort=0:detect_stack_use_after_return=0:max_free_fill_size=256:malloc_fill_byte=190",
    "UBSAN_OPTIONS": "print_stacktrace=1:abort_on_error=1:halt_on_error=1",
    "TSAN_OPTIONS": "halt_on_error=0:exitcode=0:report_signal_unsafe=0:history_size=4",
}

_tree_hash_cache = {}


def _hash_files(paths):
    h = hashlib.sha256()
    for p in sorted(paths):
        h.update(p.encode())
        with open(p, "rb") as f:
            h.update(f.read())
    return h.hexdigest()


def tree_hash():
    if "t" not in _tree_hash_cache:
        files = []
        for base in (os.path.join(REPO, "src", "cntgs"), os.path.join(ROOT, "harness", "include")):
            for d, _, fs in os.walk(base):
                for f in fs:
                    files.append(os.path.join(d, f))
        _tree_hash_cache["t"] = _hash_files(files)
    return _tree_hash_cache["t"]


class BuildError(Exception):
    pass


_build_lock = threading.Lock()
_build_locks = {}


def sanitize(s):
    return re.sub(r"[^A-Za-z0-9]+", "_", s).strip("_")


def build(engine, cfg, kind, flavour, std="c++17", extra_defs=()):
    """Returns the path of the binary for (engine, cfg, kind, flavour); builds it if the cache has no current one."""
    src = os.path.join(ROOT, "harness", "engines", engine + ".cpp")
    cxx, flags = FLAVOURS[flavour]
    header = "".join("#define %s\n" % d for d in extra_defs) + "#include \"vf/config.hpp\"\n"
    if cfg and ";" in cfg:
        # several parameter lists in one binary (layout engine)
        lst = cfg.split(";")
        header += "#include <tuple>\nusing VF_CFGS = std::tuple<%s>;\nstatic const char* const VF_CFG_STRS[] = {%s};\n" % (", ".join(cfg_cpp(c) for c in lst), ", ".join('"%s"' % c for c in lst))
    elif cfg:
        header += "using VF_CFG = %s;\n#define VF_CFG_STR \"%s\"\n" % (cfg_cpp(cfg), cfg)
        if cfg_never_allocates(cfg):
            header += "#define VF_ARM_NEW 1\n"
    if kind:
        header += "using VF_KIND = %s;\n#define VF_KIND_STR \"%s\"\n" % (kind_cpp(kind), kind)
    cmd_tail = [cxx, "-std=" + std] + flags + COMMON
    key = hashlib.sha256((tree_hash() + _hash_files([src]) + header + " ".join(cmd_tail)).encode()).hexdigest()[:20]
    name = "%s-%s-%s-%s" % (engine, sanitize(cfg or "nocfg")[:60], kind or "nokind", std.replace("+", "p"))
    if extra_defs:
        name += "-" + sanitize("_".join(extra_defs))[:40]
    if len(sanitize(cfg or "")) > 60:
        name += "-" + hashlib.sha1((cfg or "").encode()).hexdigest()[:8]
    d = os.path.join(BUILD, flavour)
    os.makedirs(d, exist_ok=True)
    binp = os.path.join(d, name + "-" + key)
    if os.path.exists(binp):
        return binp
    with _build_lock:
        lk = _build_locks.setdefault(binp, threading.Lock())
    with lk:
        if os.path.exists(binp):
            return binp
        import fcntl
        lockf = open(binp + ".lock", "w")
        fcntl.flock(lockf, fcntl.LOCK_EX)
        try:
            if os.path.exists(binp):
                return binp
            hp = binp + ".cfg.hpp"
            with open(hp, "w") as f:
                f.write(header)
            tmp = binp + ".tmp%d_%d" % (os.getpid(), threading.get_ident())
            cmd = cmd_tail + ["-include", hp, src, "-o", tmp, "-lpthread"]
            p = subprocess.run(cmd, stdout=subprocess.PIPE, stderr=subprocess.STDOUT, text=True)
            if p.returncode != 0:
                log = binp + ".buildlog"
                with open(log, "w") as f:
                    f.write(" ".join(cmd) + "\n" + p.stdout)
                raise BuildError("%s %s %s %s: compile failed, see %s\n%s" % (engine, cfg, kind, flavour, log, "\n".join(
                    l for l in p.stdout.splitlines() if "error" in l)[:3000]))
            os.rename(tmp, binp)
            # drop older binaries of the same unit
            for f in os.listdir(d):
                if f.startswith(name + "-") and not f.startswith(name + "-" + key):
                    try:
                        os.remove(os.path.join(d, f))
                    except OSError:
                        pass
            return binp
        finally:
            fcntl.flock(lockf, fcntl.LOCK_UN)
            lockf.close()
            try:
                os.remove(binp + ".lock")
            except OSError:
                pass


# ---------------------------------------------------------------------------------------------- running
def classify_stderr(err):
    """Kind of sanitizer / runtime report in a captured stderr."""
    m = re.search(r"ERROR: AddressSanitizer: ([a-zA-Z0-9_-]+)", err)
    if m:
        k = m.group(1)
        if k == "SEGV":
            return "asan:SEGV"
        return "asan:" + k
    m = re.search(r"runtime error: (.*)", err)
    if m:
        msg = m.group(1)
        msg = re.sub(r"0x[0-9a-f]+", "ADDR", msg)
        msg = re.sub(r"\d+", "N", msg)
        return "ubsan:" + msg[:80]
    m = re.search(r"Assertion `(.*)' failed", err)
    if m:
        return "assert:" + m.group(1)[:80]
    if "terminate called" in err:
        m = re.search(r"terminate called after throwing an instance of '([^']+)'", err)
        return "terminate:" + (m.group(1) if m else "noexcept")
    if "ThreadSanitizer: data race" in err:
        return "tsan:data-race"
    return None


def innermost_cntgs_frame(err):
    for line in err.splitlines():
        m = re.search(r"#\d+ 0x[0-9a-f]+ in (cntgs::[^ (<]+)", line)
        if m:
            return m.group(1)
    return ""


def parse_tsan(unit, se, case):
    """One event per ThreadSanitizer report; reports without a cntgs:: frame are the harness's (or libstdc++'s) own."""
    reports = re.split(r"(?m)^==================$", se)
    for rep in reports:
        m = re.search(r"WARNING: ThreadSanitizer: ([a-z -]+)", rep)
        if not m:
            continue
        frames = re.findall(r"#\d+ (?:0x[0-9a-f]+ in )?([^\n]+)", rep)
        # a frame belongs to the library if the function itself lives in namespace cntgs or its source line is under src/cntgs
        # (harness templates instantiated with cntgs types do not count)
        cn = [f for f in frames if re.match(r"(?:[\w:~ ]*\s)?cntgs::", re.split(r"[<(]", f, 1)[0]) or "/src/cntgs/" in f]
        top = re.sub(r"<.*", "", cn[0]) if cn else (frames[0] if frames else "")
        unit.events.append({"t": "viol", "case": case, "step": 0, "props": "C19" if cn else "HARNESS", "kind": "tsan:" + m.group(1).strip().replace(" ", "-"),
                            "op": "concurrent_const_use", "pre": "shared", "x": "", "frame": top[:200], "detail": rep.strip()[:3000], "unit": unit.label})


class Unit:
    """One binary + arguments, run over a range of cases in batches."""

    def __init__(self, engine, cfg, kind, flavour, args, cases, batch=25, std="c++17", label=None, extra_defs=(), timeout=300):
        self.timeout = timeout
        self.engine, self.cfg, self.kind, self.flavour, self.args, self.cases, self.batch, self.std = engine, cfg, kind, flavour, dict(args), cases, batch, std
        self.extra_defs = tuple(extra_defs)
        self.label = label or "%s|%s|%s|%s" % (engine, cfg, kind, flavour)
        self.bin = None
        self.events = []  # violations and deaths
        self.case_ends = []
        self.summaries = []
        self.hello = None
        self.errors = []
        self.hangs = 0

    def argv(self, lo, hi, verbose=False):
        a = [self.bin, "--seed=%d" % self.args.get("seed", SEED), "--from=%d" % lo, "--to=%d" % hi]
        for k, v in self.args.items():
            if k == "seed":
                continue
            a.append("--%s=%s" % (k, v))
        if verbose:
            a.append("--verbose")
        return a


def run_batch(unit, lo, hi, timeout=None):
    """Runs cases [lo,hi) of a unit; survives the death of the child. Appends to unit.events / case_ends / summaries."""
    timeout = timeout or unit.timeout
    env = dict(os.environ)
    env.update(RUN_ENV)
    cur = lo
    retried_hang = False
    while cur < hi:
        p = subprocess.Popen(unit.argv(cur, hi), stdout=subprocess.PIPE, stderr=subprocess.PIPE, env=env)
        hang = False
        try:
            so, se = p.communicate(timeout=timeout)
        except subprocess.TimeoutExpired:
            hang = True
            p.send_signal(signal.SIGABRT)
            try:
                so, se = p.communicate(timeout=10)
            except subprocess.TimeoutExpired:
                p.kill()
                so, se = p.communicate()
        so = so.decode("utf-8", "replace")
        se = se.decode("utf-8", "replace")
        open_case = None
        death = None
        sig = None
        bail = None
        for line in so.splitlines():
            try:
                r = json.loads(line)
            except ValueError:
                continue
            t = r.get("t")
            if t == "case_begin":
                open_case = r["case"]
            elif t == "case_end":
                unit.case_ends.append(r)
                open_case = None
            elif t == "viol":
                r["unit"] = unit.label
                unit.events.append(r)
            elif t == "summary":
                unit.summaries.append(r)
            elif t == "hello":
                unit.hello = r
            elif t == "signal":
                sig = r["sig"]
            elif t == "death":
                death = r
            elif t == "bail":
                bail = r["next"]
            elif t == "harness_error":
                unit.errors.append(r.get("what", "harness_error"))
        if "ThreadSanitizer" in se:
            parse_tsan(unit, se, open_case if open_case is not None else lo)
        if p.returncode == 0 and not hang:
            if bail is not None and bail < hi:
                cur = bail
                continue
            return
        # the child died
        if open_case is None and death is None:
            unit.errors.append("child exited with %s outside a case: %s" % (p.returncode, se[-2000:]))
            return
        case = death["case"] if death and death.get("case", -1) >= 0 else open_case
        if hang and not retried_hang:
            retried_hang = True  # inconclusive: run the same case once more before calling it a hang
            unit.hangs += 1
            cur = case
            continue
        if hang:
            # the wall-clock watchdog fired twice on the same case: that is no verdict on a loaded machine (an endless loop is
            # caught by the per-case CPU-time watchdog inside the engine instead): inconclusive
            unit.errors.append("wall-clock watchdog (%ds) fired twice on case %s" % (timeout, case))
            unit.case_ends.append({"t": "case_end", "case": case, "died": True, "nt": {}, "hash": "hang%d" % case, "steps": 0})
            cur = case + 1
            retried_hang = False
            continue
        kind = classify_stderr(se)
        if sig == "CPU-WATCHDOG":
            kind = "hang:cpu-watchdog"  # the case burnt its CPU budget: an endless loop, not a slow machine
        dprops = (death or {}).get("props", "")
        if kind and kind.startswith("assert:") and "is_aligned" in kind and "C03" not in dprops:
            dprops = (dprops + ",C03").strip(",")  # the library's own alignment assertion is C03's monitor too
        ev = {"t": "death", "case": case, "unit": unit.label, "signal": sig or ("timeout" if hang else "rc=%s" % p.returncode),
              "kind": "hang" if hang else (kind or ("raw:" + (sig or str(p.returncode)))),
              "op": (death or {}).get("op", ""), "pre": (death or {}).get("pre", ""), "step": (death or {}).get("step", -1),
              "props": dprops, "frame": innermost_cntgs_frame(se), "x": (death or {}).get("x", ""),
              "stderr": se[-6000:]}
        unit.events.append(ev)
        unit.case_ends.append({"t": "case_end", "case": case, "died": True, "nt": {}, "hash": "dead%d" % case, "steps": 0})
        cur = case + 1
        retried_hang = False


def run_units(units, progress=True):
    """Builds (in parallel) and runs all units; returns list of build errors."""
    t0 = time.time()
    build_errors = []

    def do_build(u):
        try:
            u.bin = build(u.engine, u.cfg, u.kind, u.flavour, u.std, u.extra_defs)
        except BuildError as e:
            build_errors.append(str(e))

    # distinct binaries only
    seen = {}
    for u in units:
        seen.setdefault((u.engine, u.cfg, u.kind, u.flavour, u.std, u.extra_defs), []).append(u)
    with cf.ThreadPoolExecutor(JOBS) as ex:
        list(ex.map(lambda us: do_build(us[0]), seen.values()))
    for us in seen.values():
        for u in us[1:]:
            u.bin = us[0].bin
    tb = time.time() - t0
    jobs = []
    for u in units:
        if not u.bin:
            continue
        for lo in range(0, u.cases, u.batch):
            jobs.append((u, lo, min(u.cases, lo + u.batch)))
    with cf.ThreadPoolExecutor(JOBS) as ex:
        list(ex.map(lambda j: run_batch(*j), jobs))
    if progress:
        sys.stderr.write("[vf] %d units, %d batches, build %.1fs, run %.1fs\n" % (len(units), len(jobs), tb, time.time() - t0 - tb))
    return build_errors


# ---------------------------------------------------------------------------------------------- known findings
def load_known():
    p = os.path.join(ROOT, "known_findings.json")
    if not os.path.exists(p):
        return []
    with open(p) as f:
        return json.load(f)["findings"]


def finding_matches(f, prop, ev, unit_cfg):
    if f.get("status") != "open" or f["property"] != prop:
        return False
    m = f.get("match", {})
    checks = {
        "kind": ev.get("kind", ""), "op": ev.get("op", ""), "pre": ev.get("pre", ""), "unit": ev.get("unit", ""),
        "category": cfg_category(unit_cfg) if unit_cfg else "", "detail": ev.get("detail", "") + ev.get("stderr", ""),
        "frame": ev.get("frame", ""), "x": ev.get("x", ""),
    }
    for k, pat in m.items():
        if not re.search(pat, checks.get(k, "")):
            return False
    return True


def avoid_tokens(known, prop=None):
    toks = set()
    for f in known:
        if f.get("status") == "open" and f.get("avoid"):
            toks.update(f["avoid"] if isinstance(f["avoid"], list) else [f["avoid"]])
    return sorted(toks)


# ---------------------------------------------------------------------------------------------- verdict + evidence
def event_props(ev):
    return [p for p in ev.get("props", "").split(",") if p]


def signature(prop, ev):
    sig = "%s|%s|%s|%s" % (prop, ev.get("unit", "").split("|")[0], ev.get("kind", ""), ev.get("op", ""))
    if ev.get("kind", "").startswith("tsan:"):
        sig += "|" + re.sub(r"[^A-Za-z_:]", "", ev.get("frame", ""))[:80]
    return sig


def conclude(prop, tier, level, units, build_errors, rule, t0, extra_cov=None, min_nontrivial=2, assumptions=None, require_ops=()):
    """Common tail of every check: verdict, VIOLATION / KNOWN-FINDING lines, replay files, evidence file, exit code."""
    known = load_known()
    own, cross = [], []
    for u in units:
        for ev in u.events:
            (own if prop in event_props(ev) else cross).append((u, ev))
    # known-finding matching
    unlisted, listed = [], {}
    for u, ev in own:
        hit = None
        for f in known:
            if finding_matches(f, prop, ev, u.cfg):
                hit = f
                break
        if hit:
            listed.setdefault(hit["id"], []).append((u, ev))
        else:
            unlisted.append((u, ev))
    cases = sum(len(u.case_ends) for u in units)
    died_other = sum(1 for u, ev in cross if not ev.get("soft"))  # soft observations of other properties do not cut cases
    hashes = set()
    nontrivial = set()
    samples = []
    for u in units:
        for ce in u.case_ends:
            h = (u.cfg, u.kind, ce.get("hash"))
            hashes.add(h)
            if ce.get("nt", {}).get(prop):
                nontrivial.add(h)
            if "trace" in ce and len(samples) < 6 and ce.get("nt", {}).get(prop):
                samples.append({"unit": u.label, "case": ce["case"], "ops": ce["trace"][:40]})
    if not samples:
        for u in units:
            for ce in u.case_ends:
                if "trace" in ce and len(samples) < 3:
                    samples.append({"unit": u.label, "case": ce["case"], "ops": ce["trace"][:40]})
    ops, counters, prestate_ops = {}, {}, set()
    tot = {"steps": 0, "objects_constructed": 0, "objects_destroyed": 0, "alloc_events": 0, "dealloc_events": 0, "avoided": 0}
    for u in units:
        for s in u.summaries:
            for k, v in s.get("ops", {}).items():
                ops[k] = ops.get(k, 0) + v
            for k, v in s.get("counters", {}).items():
                counters[k] = counters.get(k, 0) + v
            prestate_ops.update(s.get("prestate_op", []))
            for k in tot:
                tot[k] += s.get(k, 0)
    # replay files + output lines
    os.makedirs(os.path.join(ROOT, "replays"), exist_ok=True)
    lines = []
    seen_sig = set()
    for u, ev in unlisted:
        sig = signature(prop, ev)
        if sig in seen_sig:
            continue
        seen_sig.add(sig)
        rp = os.path.join(ROOT, "replays", "%s-%s.json" % (prop, hashlib.sha1(sig.encode()).hexdigest()[:10]))
        with open(rp, "w") as f:
            json.dump({"property": prop, "signature": sig, "engine": u.engine, "cfg": u.cfg, "kind": u.kind, "flavour": u.flavour,
                       "std": u.std, "extra_defs": list(u.extra_defs), "args": u.args, "seed": u.args.get("seed", SEED), "case": ev.get("case"), "event": ev}, f, indent=1)
        lines.append("VIOLATION property=%s replay=%s" % (prop, rp))
        sys.stderr.write("[vf] %s: %s at case %s step %s op %s(%s) pre=%s: %s\n" % (prop, ev.get("kind"), ev.get("case"), ev.get("step"), ev.get("op"), ev.get("x", ""), ev.get("pre"), (ev.get("detail") or ev.get("frame") or "")[:400]))
    for f in known:
        if f.get("status") == "open" and f["property"] == prop:
            n = len(listed.get(f["id"], []))
            print("KNOWN-FINDING: property=%s %s [%s; reproduced %d times in this run]" % (prop, f["what"], f["id"], n))
    for l in lines:
        print(l)
    inconclusive = []
    if build_errors:
        inconclusive.append("harness build failed: " + build_errors[0][:1500])
    for u in units:
        if u.errors:
            inconclusive.append("%s: %s" % (u.label, u.errors[0][:500]))
    if cases == 0:
        inconclusive.append("no case was executed")
    elif died_other * 2 > cases:
        inconclusive.append("%d of %d cases were cut short by violations of other properties" % (died_other, cases))
    else:
        # the same per unit: a parameter list whose cases mostly end in another property's violation was not looked at by
        # this property's monitors
        cut_by_unit = {}
        for u, ev in cross:
            if not ev.get("soft"):
                cut_by_unit.setdefault(u.label, set()).add(ev.get("case"))
        for u in units:
            if u.label.startswith("probe:"):
                continue  # probe units drive an open finding on purpose: what cuts their cases is the finding itself
            n_cut = len(cut_by_unit.get(u.label, ()))
            if n_cut >= 4 and n_cut * 2 > len(u.case_ends):
                inconclusive.append("%s: %d of %d cases were cut short by violations of other properties" % (u.label, n_cut, len(u.case_ends)))
                break
    for opn in require_ops:
        if ops.get(opn, 0) == 0:
            inconclusive.append("operation class %s was never evaluated" % opn)
    if len(nontrivial) < min_nontrivial and not unlisted:
        inconclusive.append("only %d distinct non-trivial cases" % len(nontrivial))
    cov = {
        "evaluations": cases, "distinct_nontrivial": len(nontrivial), "distinct_cases": len(hashes), "rule": rule, "samples": samples,
        "operations": ops, "prestate_x_op_pairs": len(prestate_ops), "prestate_x_op": sorted(prestate_ops)[:200], "monitor_counters": counters,
        "configs": sorted(set(u.cfg for u in units if u.cfg)), "allocator_kinds": sorted(set(u.kind for u in units if u.kind)),
        "flavours": sorted(set(u.flavour for u in units)), "units": len(units),
        "steps": tot["steps"], "objects_constructed": tot["objects_constructed"], "objects_destroyed": tot["objects_destroyed"],
        "alloc_events": tot["alloc_events"], "dealloc_events": tot["dealloc_events"],
        "truncated_cases_cross_property": died_other,
        "cross_notes": sorted(set("%s:%s@%s" % (ev.get("props"), ev.get("kind"), ev.get("op")) for u, ev in cross))[:40],
        "avoided_by_known_findings": tot["avoided"], "known_findings_reproduced": {k: len(v) for k, v in listed.items()},
        "hang_retries": sum(u.hangs for u in units), "inconclusive": inconclusive,
    }
    if extra_cov:
        cov.update(extra_cov)
    ev = {"property_id": prop, "tier": tier, "seed": SEED, "level": level, "coverage": cov,
          "assumptions": assumptions or [], "wall_s": round(time.time() - t0, 2), "violations": len(seen_sig)}
    os.makedirs(os.path.join(ROOT, "evidence"), exist_ok=True)
    with open(os.path.join(ROOT, "evidence", prop + ".json"), "w") as f:
        json.dump(ev, f, indent=1)
    if lines:
        return 1
    if inconclusive:
        for i in inconclusive:
            sys.stderr.write("[vf] INCONCLUSIVE %s: %s\n" % (prop, i))
        return 2
    sys.stderr.write("[vf] %s %s: held on %d cases (%d distinct non-trivial), %d steps, %.1fs\n" % (prop, tier, cases, len(nontrivial), tot["steps"], time.time() - t0))
    return 0


