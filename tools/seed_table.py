#!/usr/bin/env python3
"""Prints the markdown table 'seeded change -> checks that report it' from seeded/*/meta.json"""
import json, glob, os
rows = []
for d in sorted(glob.glob("/verif/seeded/C*")):
    m = json.load(open(d + "/meta.json"))
    name, prop = m["name"], m["property"]
    own = m["checks"].get("%s/quick" % prop, {})
    caught = sorted(k.split("/")[0] for k, v in m["checks"].items() if k.endswith("/quick") and v.get("exit") == 1)
    ran = sorted(k.split("/")[0] for k in m["checks"] if k.endswith("/quick"))
    incon = sorted(k.split("/")[0] for k, v in m["checks"].items() if k.endswith("/quick") and v.get("exit") == 2)
    others = [c for c in caught if c != prop]
    print("| %s | %s | %s | %s | %s |" % (name, m.get("needs_to_manifest", "")[:160].replace("|", "/"), "**yes**" if own.get("exit") == 1 else "NO" if own else "-", " ".join(others) if len(ran) > 1 else "(not run)", " ".join(incon)))
