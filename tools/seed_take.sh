#!/bin/sh
# usage: seed_take.sh <property id> <seed name> [extra g++ flags for the demo]
# Confirms an independently written breaking change in its own scratch worktree (/tmp/seedwork/wt_<id>): the demo passes on
# the unchanged tree and fails with the patch, the repository's suite is unchanged with the patch. Then copies patch,
# demo and README to /verif/seeded/<name>/ and writes a first meta.json (the checks' verdicts are added by seed_run.sh).
ID=$1; NAME=$2; shift 2; FLAGS="$*"
WT=${SEED_WT:-/tmp/seedwork/wt_$ID}; S=$WT/_seed
[ -f $S/patch.diff ] || { echo "no patch"; exit 2; }
cd $WT || exit 2
git checkout -q -- src
g++ -std=c++17 -O1 -g -I $WT/src $FLAGS $S/demo.cpp -o $S/demo_clean -lpthread 2>$S/build_clean.log || { echo "demo does not build on the clean tree"; cat $S/build_clean.log | head; exit 2; }
( cd $S && timeout 300 ./demo_clean >$S/out_clean.txt 2>&1 ); RC_CLEAN=$?
git apply $S/patch.diff || { echo "patch does not apply"; exit 2; }
g++ -std=c++17 -O1 -g -I $WT/src $FLAGS $S/demo.cpp -o $S/demo_patched -lpthread 2>$S/build_patched.log || { echo "demo does not build with the patch"; head $S/build_patched.log; exit 2; }
( cd $S && timeout 300 ./demo_patched >$S/out_patched.txt 2>&1 ); RC_PATCHED=$?
[ -d _build ] || cmake -G Ninja -B _build -DCNTGS_BUILD_TESTS=ON -DCNTGS_DISCOVER_TESTS=ON -DCMAKE_BUILD_TYPE=RelWithDebInfo >/dev/null
cmake --build _build -- -k0 >$S/suite_build.log 2>&1
NFAIL=$(grep -c "^FAILED:" $S/suite_build.log)
CT=$(ctest --test-dir _build -j8 2>&1 | grep -E "tests passed|\(Failed\)" | tr '\n' ' ')
echo "$NAME: demo clean rc=$RC_CLEAN patched rc=$RC_PATCHED; suite: $NFAIL failed targets; $CT"
if [ "$RC_CLEAN" = "0" ] && [ "$RC_PATCHED" != "0" ] && [ "$NFAIL" = "4" ] && echo "$CT" | grep -q "99% tests passed, 2 tests failed out of 229" && ! echo "$CT" | grep -q "(Failed)"; then
  D=/verif/seeded/$NAME; mkdir -p $D
  cp $S/patch.diff $S/demo.cpp $S/README.md $D/
  python3 - "$ID" "$NAME" "$FLAGS" "$RC_CLEAN" "$RC_PATCHED" "$CT" <<'PY'
import json,sys
i,name,flags,rc0,rc1,ct=sys.argv[1:7]
json.dump({"property":i,"name":name,"needs_to_manifest":"see README.md","demo_build":"g++ -std=c++17 -O1 -g -I <tree>/src %s demo.cpp -lpthread"%flags,
           "confirmed":{"demo_exit_on_unchanged_tree":int(rc0),"demo_exit_with_patch":int(rc1),"suite_with_patch":ct.strip(),"how":"tools/seed_take.sh in a scratch worktree under /tmp/seedwork"},
           "checks":{}},open("/verif/seeded/%s/meta.json"%name,"w"),indent=1)
PY
  echo "KEPT in $D"
else
  echo "REJECTED"
fi
