#!/usr/bin/env python3
"""Writes /verif/MANIFEST.json from the tables below (kept in one place so that it never drifts from checks.py)."""
import json, os, sys
ROOT = os.path.dirname(os.path.dirname(os.path.abspath(__file__)))
sys.path.insert(0, ROOT)
import checks

TECH = {
 "C01": "runtime monitoring: executable sequence model compared after every step of generated histories (plain + ASan/UBSan builds)",
 "C02": "runtime monitoring: AddressSanitizer + exact-size ledger blocks with poisoned canary slack + address interval checks on budget-edge histories",
 "C03": "runtime monitoring: address-modulo-A assertion on every AlignAs object after every step, least-aligned allocator blocks",
 "C04": "runtime monitoring: interval order/overlap/containment and span-count monitor over observed addresses after every step",
 "C05": "runtime monitoring: observed addresses vs. independent greedy layout oracle; footprint bound vs. a freshly constructed probe vector",
 "C06": "runtime monitoring: instrumented value type with address-keyed object registry, byte sweep and live-set comparison after every step",
 "C07": "runtime monitoring: ledger allocator (pointer, size, arena, type at every allocate/deallocate), orphan-block and end-of-case balance checks",
 "C08": "runtime monitoring: allocator-identity (arena) monitor on get_allocator() and on the owning block over the propagation-trait grid",
 "C09": "runtime monitoring: model comparison of both operands after copy/move/swap, operations on moved-from vectors under ASan/UBSan",
 "C10": "runtime monitoring: model + ledger + address stability around reserve at every fill level, then fill to the new limits under the bounds monitors",
 "C16": "runtime monitoring: address / data_begin / capacity snapshots and ledger event counter before and after every step",
 "C18": "runtime monitoring: empty-state assertions and pointer-validity monitor on histories dwelling on empty vectors, ASan/UBSan, junk-pattern differential",
}
LEVEL_TEXT = "Exploration by runtime monitoring: generated, seeded histories executed against the real headers under compiler sanitizers while harness monitors observe every step. Decides only the executions produced (bounded sizes and history length, sampled parameter lists); evidence reports what was observed."
NOTE = "Trusted: g++/clang++ sanitizer runtimes, the harness (ledger allocator, instrumented types, sequence model, layout oracle) and that generated histories respect the documented preconditions. UBSan alignment / nonnull-attribute / returns-nonnull-attribute checks are off (library stores at alignment 1 by design)."

def main():
    m = {
     "version": 1,
     "setup_cmd": "python3 vf.py setup",
     "hooks": {"guard": "CNTGS_VERIF", "enable": "every harness build passes -DCNTGS_VERIF; no hook code exists in /repo (all observation goes through the public API: user-supplied allocator and value types, addresses, data_begin/data_end, memory_consumption, get_allocator)",
               "baseline_off_cmd": "/verif/tools/baseline.sh", "source_commits": [], "add_only": True},
     "engines": [{"name": n, "path": "harness/engines/%s.cpp" % n, "serves_properties": p, "kind_free_text": t} for n, p, t in checks.ENGINES],
     "checks": [],
     "notes": "All checks: python3 vf.py check <id> <tier>; exit 0 held / 1 VIOLATION lines / 2 inconclusive (harness failure). Open genuine defects are listed in known_findings.json and printed as KNOWN-FINDING lines. See DESIGN.md.",
     "not_applicable": checks.NOT_APPLICABLE,
    }
    for prop in checks.CLAIMED:
        level = checks.LEVEL.get(prop, "exploration")
        m["checks"].append({
          "property_id": prop,
          "quick_cmd": "python3 vf.py check %s quick" % prop,
          "thorough_cmd": "python3 vf.py check %s thorough" % prop,
          "evidence_file": "evidence/%s.json" % prop,
          "replay_cmd_template": "python3 vf.py replay {path}",
          "engine": checks.ENGINE_OF[prop],
          "level_claimed": {"category": level, "text": checks.LEVEL_TEXT.get(prop, LEVEL_TEXT), "design_ref": "DESIGN.md section 5, " + prop},
          "level_note": checks.LEVEL_NOTE.get(prop, NOTE),
          "technique": checks.TECHNIQUE.get(prop, TECH.get(prop, "runtime monitoring")),
        })
    with open(os.path.join(ROOT, "MANIFEST.json"), "w") as f:
        json.dump(m, f, indent=1)
    print("MANIFEST.json: %d checks, %d not applicable" % (len(m["checks"]), len(m["not_applicable"])))

main()
