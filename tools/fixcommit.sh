#!/bin/sh
# usage: fixcommit.sh <file with commit message>   -- commits the working-tree change of /repo only if the suite is green
OUT=$(/verif/tools/baseline.sh)
echo "$OUT" | grep -E "tests passed|Failed|^FAILED" 
N_FAILED_TARGETS=$(echo "$OUT" | grep -c "^FAILED:")
if echo "$OUT" | grep -q "(Failed)"; then echo "NOT COMMITTED: tests failed"; exit 1; fi
if [ "$N_FAILED_TARGETS" != "4" ]; then echo "NOT COMMITTED: $N_FAILED_TARGETS failed build targets (4 expected)"; exit 1; fi
if ! echo "$OUT" | grep -q "99% tests passed, 2 tests failed out of 229"; then echo "NOT COMMITTED: unexpected ctest summary"; exit 1; fi
cd /repo && git commit -qa -F "$1" && git log --oneline | head -1
