#!/bin/sh
# usage: mutant.sh <patch.diff> <tier> <prop>...   -- applies the patch to a scratch copy of /repo (never to /repo itself),
# runs the given checks against the copy (VERIF_REPO) and removes the copy and its build cache afterwards.
PATCH=$(readlink -f "$1"); TIER=$2; shift 2
SCR=$(mktemp -d "${TMPDIR:-/var/tmp}/cntgs-verif-mut.XXXXXX")
mkdir -p "$SCR/src" && cp -r /repo/src/cntgs "$SCR/src/" && cp /repo/src/*.hpp /repo/src/*.cpp "$SCR/src/" 2>/dev/null
( cd "$SCR" && git init -q . && git add -A >/dev/null && git apply "$PATCH" ) || { echo "patch does not apply"; rm -rf "$SCR"; exit 2; }
cd /verif
ALT=$(python3 -c "import hashlib,sys;print('alt-'+hashlib.sha1(sys.argv[1].encode()).hexdigest()[:8])" "$SCR")
for P in "$@"; do
  VERIF_REPO="$SCR" python3 vf.py check "$P" "$TIER" > "$SCR/out_$P.txt" 2>&1
  RC=$?
  echo "$P exit=$RC $(grep -c '^VIOLATION' "$SCR/out_$P.txt") violation lines; $(grep -E '^\[vf\] (C[0-9]+:|INCONCLUSIVE)' "$SCR/out_$P.txt" | head -2 | cut -c1-260 | tr '\n' ' ')"
done
rm -rf "$SCR" "/verif/build/$ALT"
git -C /verif checkout -- evidence 2>/dev/null
