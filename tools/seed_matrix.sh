#!/bin/sh
# usage: seed_matrix.sh <tier> <seed name>...   every check against every given seeded change; results in seeded/<name>/meta.json
TIER=$1; shift
for N in "$@"; do
  python3 /verif/tools/seed_run.py $N $TIER C01 C02 C03 C04 C05 C06 C07 C08 C09 C10 C11 C12 C13 C14 C15 C16 C17 C18 C19 C20
done
