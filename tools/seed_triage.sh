#!/bin/sh
# usage: seed_triage.sh <seed name> <prop> [tier]  -- triage (all events of all properties) of a check against a seeded change
D=/verif/seeded/$1; SCR=$(mktemp -d "${TMPDIR:-/var/tmp}/cntgs-verif-seed.XXXXXX")
cp -r /repo/src "$SCR/src" && ( cd "$SCR" && git init -q . && git add -A >/dev/null && git apply "$D/patch.diff" ) || exit 2
cd /verif && VERIF_REPO="$SCR" python3 tools/triage.py "$2" ${3:-quick}
ALT=$(python3 -c "import hashlib,sys;print('alt-'+hashlib.sha1(sys.argv[1].encode()).hexdigest()[:8])" "$SCR")
rm -rf "$SCR" "/verif/build/$ALT"
