#!/bin/sh
# developer aid: triage every listed property at a tier / seed (used through `vp run`)
TIER=${TIER:-thorough}
for p in "$@"; do
  echo "=== $p seed=$VERIF_SEED tier=$TIER"
  python3 tools/triage.py $p $TIER 2>&1 | cut -c1-500 | head -60
done
