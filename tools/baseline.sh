#!/bin/sh
# Rebuilds the repository's own test suite (hooks off: the guard CNTGS_VERIF is never defined by the repo's build)
# and runs it. Four targets (two README-style examples, two benchmarks) do not compile at the pinned commit, hence -k0;
# the 113 stable tests of BASELINE.json must pass. Any other failing build target is reported.
LOG=$(mktemp)
cmake --build /repo/_build -- -k0 >"$LOG" 2>&1
echo "build targets that failed (4 expected: 2 examples, 2 benchmarks):"
grep -E "^FAILED:" "$LOG" | sort -u
rm -f "$LOG"
ctest --test-dir /repo/_build -j8 --timeout 900 2>&1 | tail -12
