#!/usr/bin/env python3
"""Reach of the workloads: line coverage of src/cntgs/** measured with gcov on --coverage builds of every engine
(a few representative units each, quick-tier bounds). Writes /verif/reach/coverage.json and prints a summary.
Not a check: a measure of which library lines the monitors get to observe at all (uninstantiated template code does not
count as instrumented, so the figure is 'executed lines / lines of instantiated code')."""
import glob
import gzip
import json
import os
import subprocess
import sys

ROOT = os.path.dirname(os.path.dirname(os.path.abspath(__file__)))
sys.path.insert(0, ROOT)
import vflib as vf
import checks

UNITS = [
    ("hist", "P:Tr8,P:u16,P:str", "s010", {"profile": "uniform"}),
    ("hist", "F:Tr4,P:u8,F:Tr24@8", "s011", {"profile": "copymove"}),
    ("hist", "P:u32,C:u64@8,V:f32,C:u64@8,V:f32", "s000", {"profile": "budget"}),
    ("hist", "C:u32,V:Tr4,P:Tr24", "s110", {"profile": "lifetime"}),
    ("hist", "F:Tr8,C:u8,V:u16@2,P:Tr4@4", "s111d", {"profile": "empty", "junk-diff": 1}),
    ("hist", "P:u32,F:f32@32", "std", {"profile": "reserve"}),
    ("elem", "C:u32,V:Tr8,C:u8,V:str", "s000", {}),
    ("elem", "F:Tr4,P:u8,F:Tr24@8", "s011", {}),
    ("ref", "F:u16,P:str,F:u8", "s000", {}),
    ("ref", "P:u32,C:u64@8,V:f32", "s000", {}),
    ("cmp", "P:u8,F:u8", "std", {}),
    ("cmp", "C:u32,V:str,P:Tr8", "s101", {}),
    ("cmp", "P:u16,P:u32@8", "std", {}),
    ("fault", "C:u32,V:Tr4,P:Tr24", "s000", {}),
    ("fault", "F:Tr4,P:u8,F:Tr24@8", "s010", {}),
    ("matrix", "F:Tr8,C:u8,V:u16@2,P:Tr4@4", "s101", {}),
    ("matrix", "P:u32,F:f32", "s100", {}),
    ("hist", "P:Cnt8,F:Cnt8,C:u16,V:Cnt8", "s100", {"profile": "copymove"}),
    ("hist", "P:Ctm8,C:u32,V:Ctm8", "s000", {"profile": "lifetime"}),
    ("hist", "C:u16,V:bptr,P:bptr", "std", {"profile": "uniform"}),
    ("hist", "P:u32,F:f32", "e100", {"profile": "copymove"}),
    ("elem", "P:Amp8,C:u32,V:Amp8", "s100", {}),
    ("cmp", "F:u8,C:u8,V:u8", "s011", {}),
    ("layout", "P:f64@8,F:B12@8,P:f64@8;C:u8,V:u8,P:u16@4;P:u8,C:u32,V:B24@16,P:u32@16;C:u64@8,V:f32@16,P:u32", None, {"max-cap": 6, "max-span": 5}),
]


def main():
    units = []
    for eng, cfg, kind, args in UNITS:
        a = {"seed": vf.SEED}
        a.update(args)
        units.append(vf.Unit(eng, cfg, kind, "cov", a, 25 if eng == "matrix" else 150, batch=150))
    for g in range(checks.EMPLACE_GROUPS):
        units.append(vf.Unit("emplace", None, None, "cov", {"seed": vf.SEED}, 100000, batch=100000, extra_defs=("VF_GROUP %d" % g,), label="emplace|group%d|cov" % g))
    errs = vf.run_units(units)
    for e in errs:
        print("BUILD ERROR", e[:500])
    lines = {}  # file -> {line: count}
    for u in units:
        if not u.bin:
            continue
        for gcda in glob.glob(u.bin + "*.gcda"):
            p = subprocess.run(["gcov", "--json-format", "--stdout", gcda], stdout=subprocess.PIPE, stderr=subprocess.DEVNULL, cwd=os.path.dirname(gcda))
            for doc in p.stdout.decode("utf-8", "replace").splitlines():
                try:
                    j = json.loads(doc)
                except ValueError:
                    continue
                for f in j.get("files", []):
                    fn = os.path.normpath(f["file"])
                    if "/src/cntgs/" not in fn:
                        continue
                    rel = fn[fn.index("/src/cntgs/") + 1:]
                    d = lines.setdefault(rel, {})
                    for l in f["lines"]:
                        d[l["line_number"]] = d.get(l["line_number"], 0) + l["count"]
            os.remove(gcda)
    report = {"files": {}, "violations_seen": sum(len(u.events) for u in units)}
    tot_i = tot_e = 0
    for fn in sorted(lines):
        inst = len(lines[fn])
        ex = sum(1 for c in lines[fn].values() if c > 0)
        tot_i += inst
        tot_e += ex
        report["files"][fn] = {"instrumented_lines": inst, "executed_lines": ex, "not_executed": sorted(l for l, c in lines[fn].items() if c == 0)}
    report["total"] = {"instrumented_lines": tot_i, "executed_lines": tot_e, "percent": round(100.0 * tot_e / max(1, tot_i), 1)}
    os.makedirs(os.path.join(ROOT, "reach"), exist_ok=True)
    with open(os.path.join(ROOT, "reach", "coverage.json"), "w") as f:
        json.dump(report, f, indent=1)
    for fn, r in report["files"].items():
        print("%-45s %4d / %4d  not executed: %s" % (fn, r["executed_lines"], r["instrumented_lines"], r["not_executed"][:12]))
    print("TOTAL %d / %d = %.1f%%" % (tot_e, tot_i, report["total"]["percent"]))


main()
