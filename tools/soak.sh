#!/bin/sh
# usage: soak.sh <tier> <seed>...  -- every check on the unchanged tree for several VERIF_SEED values; prints one line per check
TIER=$1; shift
for S in "$@"; do
  for P in C01 C02 C03 C04 C05 C06 C07 C08 C09 C10 C11 C12 C13 C14 C15 C16 C17 C18 C19 C20; do
    OUT=$(VERIF_SEED=$S python3 /verif/vf.py check $P $TIER 2>&1); RC=$?
    echo "seed=$S $P exit=$RC $(echo "$OUT" | grep -c '^VIOLATION') violations $(echo "$OUT" | grep -E 'INCONCLUSIVE|\[vf\] C[0-9]+:' | head -2 | cut -c1-200 | tr '\n' ' ')"
  done
done
git -C /verif checkout -- evidence 2>/dev/null
