#!/usr/bin/env python3
"""Developer aid: run the units of a check and group every event (all properties) by kind/op/pre-state/category."""
import sys, os, collections
sys.path.insert(0, os.path.dirname(os.path.dirname(os.path.abspath(__file__))))
import vflib as vf, checks
prop = sys.argv[1]; tier = sys.argv[2] if len(sys.argv) > 2 else "quick"
units = checks.units_for(prop, tier, vf.SEED)
errs = vf.run_units(units)
for e in errs: print("BUILD ERROR", e[:1500])
g = collections.OrderedDict()
known = vf.load_known()
for u in units:
    for ev in u.events:
        if any(vf.finding_matches(f, p, ev, u.cfg) for f in known for p in vf.event_props(ev)): continue
        k = (ev.get("props"), ev.get("kind"), ev.get("op"), ev.get("pre"), vf.cfg_category(u.cfg) if u.cfg else "")
        g.setdefault(k, []).append((u, ev))
for k, v in sorted(g.items(), key=lambda kv: -len(kv[1])):
    u, ev = v[0]
    print("%4d %s\n       e.g. %s case %s step %s x=%s frame=%s\n       %s" % (len(v), k, u.label, ev.get("case"), ev.get("step"), ev.get("x",""), ev.get("frame",""), (ev.get("detail") or "")[:300]))
print("cases", sum(len(u.case_ends) for u in units), "events", sum(len(u.events) for u in units), "unit errors", [u.errors for u in units if u.errors][:3])
