#!/usr/bin/env python3
"""Writes seeded/README.md: the table seeded change -> checks that report it, the neutral refactorings, the last soak."""
import glob, json, os
out = ["# Seeded changes and what reports them", "",
       "Each directory holds `patch.diff` (the change; `tools/seed_run.py` applies it to a scratch copy of `/repo`), `demo.cpp` (passes on the unchanged tree, fails with the change), the author's `README.md` and `meta.json` (what it needs to manifest, what was confirmed, verdict of every check that was run against it; written by `tools/seed_take.sh` and `tools/seed_run.py`).",
       "A check *reports* a change when it exits 1 with a `VIOLATION` line on a scratch copy of `/repo` with the patch applied. Columns: own = the quick check of the property the change was written against; others = every other quick check that also exits 1 (only filled where all 20 checks were run; those rows are from an earlier state of the checks, the own column is from the last regression run over all changes).", "",
       "| change | needs to manifest | own check | other checks that report it | inconclusive |", "|---|---|---|---|---|"]
for d in sorted(glob.glob("/verif/seeded/C*")):
    m = json.load(open(d + "/meta.json"))
    prop = m["property"]
    own = m["checks"].get("%s/quick" % prop, {})
    quick = {k.split("/")[0]: v for k, v in m["checks"].items() if k.endswith("/quick")}
    others = sorted(p for p, v in quick.items() if v.get("exit") == 1 and p != prop)
    incon = sorted(p for p, v in quick.items() if v.get("exit") == 2)
    out.append("| %s | %s | %s | %s | %s |" % (m["name"], m.get("needs_to_manifest", "").replace("|", "/"), "reported" if own.get("exit") == 1 else ("MISSED" if own else "-"),
                                           " ".join(others) if len(quick) >= 20 else ("(only own check run)" if not others else " ".join(others) + " (partial)"), " ".join(incon)))
out += ["", "## Property-preserving refactorings (`../neutral/`)", "", "| change | what | written against | checks run | checks that raised an alarm |", "|---|---|---|---|---|"]
for d in sorted(glob.glob("/verif/neutral/N*")):
    m = json.load(open(d + "/meta.json"))
    bad = sorted(k for k, v in m["checks"].items() if v.get("exit") != 0)
    out.append("| %s | %s | %s | %d | %s |" % (m["name"], m["kind"], m.get("written_against", ""), len(m["checks"]), " ".join(bad) if bad else "none"))
if os.path.exists("/verif/seeded/soak.txt"):
    out += ["", "## Last soak on the unchanged tree", "", "```"] + open("/verif/seeded/soak.txt").read().splitlines() + ["```"]
open("/verif/seeded/README.md", "w").write("\n".join(out) + "\n")
print("\n".join(out[:12]))
