#!/usr/bin/env python3
"""usage: seed_run.py <seed name> <tier> <prop>...   runs the given checks against the seeded change (applied to a scratch copy
of /repo, never to /repo) and records exit code / number of VIOLATION lines per check in seeded/<name>/meta.json"""
import json, os, re, subprocess, sys, tempfile, shutil, hashlib
name, tier, props = sys.argv[1], sys.argv[2], sys.argv[3:]
d = ("/verif/neutral/" + name) if name.startswith("N") else ("/verif/seeded/" + name)
meta = json.load(open(d + "/meta.json"))
scr = tempfile.mkdtemp(prefix="cntgs-verif-seed.", dir=os.environ.get("TMPDIR", "/var/tmp"))
try:
    shutil.copytree("/repo/src", scr + "/src")
    subprocess.check_call(["git", "init", "-q", "."], cwd=scr)
    subprocess.check_call("git add -A >/dev/null", shell=True, cwd=scr)
    subprocess.check_call(["git", "apply", d + "/patch.diff"], cwd=scr)
    for p in props:
        env = dict(os.environ, VERIF_REPO=scr)
        r = subprocess.run(["python3", "vf.py", "check", p, tier], cwd="/verif", env=env, stdout=subprocess.PIPE, stderr=subprocess.STDOUT, text=True)
        nv = len(re.findall(r"(?m)^VIOLATION", r.stdout))
        first = [l for l in r.stdout.splitlines() if l.startswith("[vf] %s:" % p) or "INCONCLUSIVE" in l][:2]
        meta["checks"]["%s/%s" % (p, tier)] = {"exit": r.returncode, "violation_lines": nv, "first": [f[:300] for f in first]}
        print("%s %s/%s exit=%d violations=%d %s" % (name, p, tier, r.returncode, nv, (first[0][:200] if first else "")))
finally:
    shutil.rmtree(scr, ignore_errors=True)
    shutil.rmtree("/verif/build/alt-" + hashlib.sha1(scr.encode()).hexdigest()[:8], ignore_errors=True)
    subprocess.call("git -C /verif checkout -- evidence 2>/dev/null", shell=True)
json.dump(meta, open(d + "/meta.json", "w"), indent=1)
