// hist engine: random valid operation histories over a pool of vectors; after every step every monitor runs.
// One binary per (configuration, allocator kind, flavour); the profile (operation weights, state shaping) is a runtime
// argument so that all history-based properties share the build.
//
// Compile with: -include <generated config header> which defines  using VF_CFG = vf::Config<...>;  using VF_KIND = vf::Kind<...>;
// and VF_CFG_STR.
#include "vf/vecmon.hpp"

#include <functional>
#include <optional>

using namespace vf;

#ifdef VF_ARM_NEW
// C07: the value types of this configuration never allocate, so any operator new reached from inside a library call
// (and not from harness code running there) is memory that did not come from the allocator
void* operator new(std::size_t n)
{
    vf::note_operator_new();
    void* p = std::malloc(n ? n : 1);
    if (!p) throw std::bad_alloc();
    return p;
}
void* operator new[](std::size_t n) { return ::operator new(n); }
void* operator new(std::size_t n, std::align_val_t a)
{
    vf::note_operator_new();
    void* p = nullptr;
    if (posix_memalign(&p, static_cast<std::size_t>(a) < sizeof(void*) ? sizeof(void*) : static_cast<std::size_t>(a), n ? n : 1) != 0) throw std::bad_alloc();
    return p;
}
void* operator new[](std::size_t n, std::align_val_t a) { return ::operator new(n, a); }
void operator delete(void* p) noexcept { std::free(p); }
void operator delete[](void* p) noexcept { std::free(p); }
void operator delete(void* p, std::size_t) noexcept { std::free(p); }
void operator delete[](void* p, std::size_t) noexcept { std::free(p); }
void operator delete(void* p, std::align_val_t) noexcept { std::free(p); }
void operator delete[](void* p, std::align_val_t) noexcept { std::free(p); }
void operator delete(void* p, std::size_t, std::align_val_t) noexcept { std::free(p); }
void operator delete[](void* p, std::size_t, std::align_val_t) noexcept { std::free(p); }
#endif

namespace
{
constexpr int POOL = 3;

enum OpKind
{
    OP_CONSTRUCT,
    OP_DEFAULT_CONSTRUCT,
    OP_EMPLACE_BACK,
    OP_POP_BACK,
    OP_ERASE_POS,
    OP_ERASE_RANGE,
    OP_CLEAR,
    OP_RESERVE,
    OP_COPY_CONSTRUCT,
    OP_MOVE_CONSTRUCT,
    OP_COPY_ASSIGN,
    OP_MOVE_ASSIGN,
    OP_SWAP,
    OP_DESTROY,
    OP_MUTATE,
    OP_FILL,  // macro: emplace_back until capacity or budget is exhausted (adversarial splits)
    OP_RESEAT,  // assign a new position to iterator objects that outlived earlier states of the pool, read through them
    OP_COUNT
};

const char* OP_NAME[OP_COUNT] = {"construct", "default_construct", "emplace_back", "pop_back", "erase_pos", "erase_range", "clear", "reserve",
                                 "copy_construct", "move_construct", "copy_assign", "move_assign", "swap", "destroy", "mutate", "fill", "iterator_reseat"};

struct Profile
{
    std::string name;
    std::array<int, OP_COUNT> w{};
};

Profile make_profile(const std::string& name)
{
    Profile p;
    p.name = name;
    auto set = [&](std::initializer_list<std::pair<OpKind, int>> l)
    {
        for (auto& [k, v] : l) p.w[k] = v;
    };
    // uniform (C01 and the layout / lifetime / ledger monitors)
    set({{OP_CONSTRUCT, 6}, {OP_DEFAULT_CONSTRUCT, 1}, {OP_EMPLACE_BACK, 30}, {OP_POP_BACK, 6}, {OP_ERASE_POS, 10}, {OP_ERASE_RANGE, 7}, {OP_CLEAR, 3}, {OP_RESERVE, 9},
         {OP_COPY_CONSTRUCT, 3}, {OP_MOVE_CONSTRUCT, 3}, {OP_COPY_ASSIGN, 4}, {OP_MOVE_ASSIGN, 4}, {OP_SWAP, 3}, {OP_DESTROY, 3}, {OP_MUTATE, 6}, {OP_FILL, 2}, {OP_RESEAT, 4}});
    if (name == "budget")  // C02: fill to exactly N elements / B bytes, erase / refill cycles
        set({{OP_FILL, 14}, {OP_EMPLACE_BACK, 20}, {OP_ERASE_POS, 12}, {OP_ERASE_RANGE, 8}, {OP_RESERVE, 8}, {OP_CONSTRUCT, 10}, {OP_DESTROY, 6}, {OP_MUTATE, 2}});
    else if (name == "copymove")  // C09 C08 C05 C07
        set({{OP_COPY_CONSTRUCT, 10}, {OP_MOVE_CONSTRUCT, 10}, {OP_COPY_ASSIGN, 14}, {OP_MOVE_ASSIGN, 14}, {OP_SWAP, 10}, {OP_DESTROY, 8}, {OP_CONSTRUCT, 10}, {OP_EMPLACE_BACK, 24}, {OP_MUTATE, 10}, {OP_CLEAR, 4}, {OP_RESEAT, 12}});
    else if (name == "reserve")  // C10
        set({{OP_RESERVE, 30}, {OP_FILL, 8}, {OP_EMPLACE_BACK, 24}, {OP_POP_BACK, 6}, {OP_ERASE_POS, 6}, {OP_CONSTRUCT, 8}});
    else if (name == "empty")  // C18
        set({{OP_CONSTRUCT, 12}, {OP_DEFAULT_CONSTRUCT, 8}, {OP_EMPLACE_BACK, 8}, {OP_POP_BACK, 10}, {OP_ERASE_POS, 6}, {OP_ERASE_RANGE, 10}, {OP_CLEAR, 12}, {OP_RESERVE, 10},
             {OP_COPY_CONSTRUCT, 8}, {OP_MOVE_CONSTRUCT, 6}, {OP_COPY_ASSIGN, 8}, {OP_MOVE_ASSIGN, 8}, {OP_SWAP, 8}, {OP_DESTROY, 10}, {OP_MUTATE, 1}, {OP_FILL, 1}});
    else if (name == "norealloc")  // C16
        set({{OP_EMPLACE_BACK, 34}, {OP_POP_BACK, 10}, {OP_ERASE_POS, 12}, {OP_ERASE_RANGE, 6}, {OP_CLEAR, 3}, {OP_RESERVE, 10}, {OP_SWAP, 6}, {OP_MOVE_CONSTRUCT, 6}, {OP_CONSTRUCT, 5},
             {OP_DESTROY, 2}, {OP_COPY_ASSIGN, 1}, {OP_MOVE_ASSIGN, 1}, {OP_COPY_CONSTRUCT, 1}, {OP_MUTATE, 4}});
    else if (name == "lifetime")  // C06: relocation-heavy
        set({{OP_EMPLACE_BACK, 30}, {OP_ERASE_POS, 16}, {OP_ERASE_RANGE, 10}, {OP_RESERVE, 12}, {OP_COPY_ASSIGN, 6}, {OP_MOVE_ASSIGN, 8}, {OP_COPY_CONSTRUCT, 5}, {OP_MOVE_CONSTRUCT, 4}, {OP_SWAP, 3},
             {OP_CLEAR, 3}, {OP_POP_BACK, 5}, {OP_DESTROY, 4}, {OP_CONSTRUCT, 8}, {OP_MUTATE, 6}});
    return p;
}

struct Limits
{
    size_t max_cap = 8;
    size_t max_span = 6;
    size_t max_fixed = 4;
    int max_steps = 40;
};

template <class Cfg, class K>
struct Engine
{
    using Alloc = LedgerAlloc<std::byte, K>;
    using Vec = typename Cfg::template Vec<Alloc>;
    using Mon = VecMon<Cfg, Vec>;
    using G = Glue<Cfg>;
    static constexpr size_t NF = Cfg::NF;

    struct Slot
    {
        std::optional<Vec> v;
        MVec m;
    };

    Rng rng{1};
    Profile prof;
    Limits lim;
    Slot s[POOL];
    uint64_t next_id = 1;
    int64_t case_no = 0;
    int step = 0;
    bool cut = false;  // a violation was reported: the state is suspect, stop the case
    // known-finding avoidance switches (set from the command line by the driver)
    std::set<std::string> avoid;
    // evidence
    std::map<std::string, uint64_t> op_count;
    std::set<std::string> prestate_op;
    uint64_t steps_total = 0;
    uint64_t avoided = 0;
    // per-case non-triviality witnesses
    struct CaseFlags
    {
        bool reloc_then_mutation = false;  // C01
        bool pending_reloc = false;
        bool full_exact_budget = false;  // C02
        bool aligned_after_odd_span = false;  // C03
        bool zero_or_unequal_span = false;  // C04
        bool realloc_with_block = false;  // C05
        bool overlap_reloc_or_unequal_transfer = false;  // C06
        int data_allocs = 0;  // C07
        bool assign_grow = false, assign_shrink = false;
        bool unequal_arena_transfer = false;  // C08
        bool partial_source_nonempty_target = false;  // C09
        bool grow_partial = false;  // C10
        int quiet_streak = 0, max_quiet_streak = 0;  // C16
        bool empty_nonfresh = false;  // C18
        int reseats = 0;              // C11: iterator objects re-assigned after the pool changed
        uint64_t hash = 0;
        std::vector<std::string> trace;
    } cf;
    uint64_t digest = 0;  // observation digest for the junk differential

    bool stateless() const { return !K::HAS_IDENTITY; }
    int pick_arena() { return stateless() ? 0 : static_cast<int>(rng.range(1, 2)); }

    static std::string death_props(OpKind k, const MVec* a, const MVec* b)
    {
        std::string p = "C02";
        switch (k)
        {
            case OP_CONSTRUCT: case OP_EMPLACE_BACK: case OP_POP_BACK: case OP_ERASE_POS: case OP_ERASE_RANGE: case OP_CLEAR: case OP_FILL: case OP_MUTATE: p += ",C01"; break;
            case OP_RESERVE: p += ",C01,C10"; break;
            case OP_COPY_CONSTRUCT: case OP_MOVE_CONSTRUCT: case OP_COPY_ASSIGN: case OP_MOVE_ASSIGN: case OP_SWAP: p += ",C09"; break;
            case OP_RESEAT: p += ",C11,C04"; break;
            default: break;
        }
        if (!Cfg::ALL_TRIVIALLY_COPYABLE) p += ",C06";
        if ((a && is_empty_state(*a)) || (b && is_empty_state(*b)) || k == OP_DEFAULT_CONSTRUCT) p += ",C18";
        if (((a && a->moved_from) || (b && b->moved_from)) && p.find("C09") == std::string::npos) p += ",C09";
        if (k == OP_DESTROY) p += ",C07";
        if ((k == OP_EMPLACE_BACK || k == OP_FILL) && a && a->grown_by_reserve && p.find("C10") == std::string::npos) p += ",C10";
        return p;
    }

    void begin_op(OpKind k, int a, int b, const std::string& args)
    {
        const MVec* ma = a >= 0 ? &s[a].m : nullptr;
        const MVec* mb = b >= 0 ? &s[b].m : nullptr;
        std::string pre = ma ? prestate(*ma) : "none";
        if (mb)
        {
            pre += "/";
            pre += prestate(*mb);
        }
        cur_pre = pre;
        cur_op = OP_NAME[k];
        cnt_copies_at_begin = Cnt8::copies();
        cnt_copy_expect = 0;
        // filling a vector up to what a growing reserve() promised: bounds violations there are also C10's
        out().extra_props = ((k == OP_EMPLACE_BACK || k == OP_FILL) && ma && ma->grown_by_reserve) ? "C10" : "";
        set_ctx(case_no, step, OP_NAME[k], pre.c_str(), death_props(k, ma, mb).c_str(), args.c_str());
        ++op_count[OP_NAME[k]];
        prestate_op.insert(std::string(OP_NAME[k]) + "@" + pre);
        const std::string line = fmt("%s(%s) pre=%s", OP_NAME[k], args.c_str(), pre.c_str());
        cf.hash = mix(cf.hash, std::hash<std::string>{}(line));
        if (cf.trace.size() < 64) cf.trace.push_back(line);
        if (out().verbose) emit(J().kv("t", "op").kv("case", case_no).kv("step", step).kv("op", line).str());
    }
    std::string cur_pre, cur_op;
    // objects of the type with user-provided copy / trivial move operations that the running operation has to copy
    uint64_t cnt_copies_at_begin = 0;
    size_t cnt_copy_expect = 0;
    static size_t cnt_objects(const MVec& m)
    {
        size_t n = 0;
        for (auto& e : m.e) n += objects_of_type(Cfg::fields(), e.f, "Cnt8");
        return n;
    }

    void viol(const char* props, const char* kind, const std::string& detail) { violation(props, kind, detail, cur_op.c_str(), cur_pre.c_str()); }

    // --------------------------------------------------------------------------------------------- generators
    std::vector<size_t> gen_fixed()
    {
        std::vector<size_t> f;
        for (size_t i = 0; i < Cfg::N_FIXED; ++i) f.push_back(rng.chance(1, 8) ? 0 : static_cast<size_t>(rng.range(0, static_cast<int64_t>(lim.max_fixed))));
        return f;
    }

    size_t max_item_bytes() const
    {
        size_t p = 0;
        for (auto& f : Cfg::fields())
            if (f.kind == 'V') p += f.size;
        return p;
    }

    // varying counts for a new element that keeps the vector within its budget; nullopt if nothing fits (never: zero counts fit)
    std::vector<size_t> gen_counts(const MVec& m, int style)
    {
        std::vector<size_t> c;
        size_t remaining = m.budget - Mon::payload(m);
        for (auto& f : Cfg::fields())
        {
            if (f.kind != 'V') continue;
            const size_t fit = remaining / f.size;
            size_t n;
            switch (style)
            {
                case 1: n = 0; break;                                       // empty span
                case 2: n = std::min(fit, lim.max_span * 3); break;         // as much as fits (all payload in this element)
                case 3: n = std::min<size_t>(fit, 1); break;                // minimal
                default: n = std::min<size_t>(fit, static_cast<size_t>(rng.range(0, static_cast<int64_t>(lim.max_span))));
            }
            c.push_back(n);
            remaining -= n * f.size;
        }
        return c;
    }

    MElem gen_elem(const MVec& m, int style = 0) { return G::make_model_elem(next_id++, m.fixed, gen_counts(m, style)); }

    // constructs in place (no move construction on the way: that is an operation of its own)
    void construct_vec(std::optional<Vec>& slot, size_t n, size_t bytes, const std::vector<size_t>& fixed, int arena)
    {
        typename Vec::allocator_type alloc{arena};
        if constexpr (Cfg::N_FIXED != 0)
        {
            std::array<size_t, Cfg::N_FIXED> fs{};
            std::copy(fixed.begin(), fixed.end(), fs.begin());
            if constexpr (Cfg::N_VARYING != 0)
                slot.emplace(n, bytes, fs, alloc);
            else
                slot.emplace(n, fs, alloc);
        }
        else if constexpr (Cfg::N_VARYING != 0)
            slot.emplace(n, bytes, alloc);
        else
            slot.emplace(n, alloc);
    }

    // --------------------------------------------------------------------------------------------- bookkeeping around an op
    struct Around
    {
        uint64_t allocs, deallocs;
        VecSnapshot snap[POOL];
    };

    Around before()
    {
        Around a;
        a.allocs = ledger().alloc_events;
        a.deallocs = ledger().dealloc_events;
        for (int i = 0; i < POOL; ++i)
            if (s[i].v) a.snap[i] = Mon::snapshot(*s[i].v, s[i].m);
        return a;
    }

    bool no_allocator_traffic(const Around& a, const char* what)
    {
        if (ledger().alloc_events != a.allocs || ledger().dealloc_events != a.deallocs)
        {
            viol("C16", "hidden_allocator_traffic", fmt("%s: %" PRIu64 " allocate and %" PRIu64 " deallocate calls", what, ledger().alloc_events - a.allocs, ledger().dealloc_events - a.deallocs));
            return false;
        }
        return true;
    }

    // addresses of the surviving elements (ids present in both) unchanged; data_begin and capacity unchanged
    void stable(const Around& a, int i, const char* what, size_t only_first_n = SIZE_MAX)
    {
        if (!a.snap[i].valid || !s[i].v || s[i].m.moved_from) return;
        const VecSnapshot now = Mon::snapshot(*s[i].v, s[i].m);
        const VecSnapshot& was = a.snap[i];
        if (now.data_begin != was.data_begin) viol("C16", "data_begin_moved", fmt("%s: data_begin() %#zx -> %#zx", what, size_t(was.data_begin), size_t(now.data_begin)));
        if (now.capacity != was.capacity) viol("C16", "capacity_changed", fmt("%s: capacity() %zu -> %zu", what, was.capacity, now.capacity));
        std::map<uint64_t, const ElemAddrs*> old;
        for (size_t k = 0; k < was.elems.size() && k < only_first_n; ++k) old[was.elems[k].id] = &was.elems[k];
        size_t checked = 0;
        for (auto& e : now.elems)
        {
            auto it = old.find(e.id);
            if (it == old.end()) continue;
            ++checked;
            if (it->second->f != e.f)
            {
                viol("C16", "object_address_changed", fmt("%s: stored objects of element id %" PRIu64 " moved", what, e.id));
                break;
            }
        }
        counters().add("addresses_compared", checked * NF);
    }

    void check_all(const char* stage)
    {
        (void)stage;
        if (cnt_copy_expect != 0 && Cnt8::copies() - cnt_copies_at_begin < cnt_copy_expect)
            viol("C09,C06", "copy_bypasses_copy_operations", fmt("%s had to copy %zu objects of a type with user-provided copy / trivial move operations, its copy constructor / copy assignment ran %" PRIu64 " times", cur_op.c_str(), cnt_copy_expect, Cnt8::copies() - cnt_copies_at_begin));
        cnt_copy_expect = 0;
        if (out().viol_in_case) { cut = true; return; }
        ledger().check_all_canaries();
        size_t expect_tracked = 0, expect_tracked_optional = 0;
        size_t data_owners = 0, vecs = 0, residual = 0;
        for (int i = 0; i < POOL; ++i)
        {
            if (!s[i].v) continue;
            ++vecs;
            MVec& m = s[i].m;
            if (m.moved_from)
            {
                // A moved-from vector is valid but unspecified: whether it still owns a block (an implementation may hand it
                // the target's old one) and whether the moved-from objects of an element-wise move are still alive is its
                // business. Observers without preconditions tell: it must not report memory it does not own.
                const Vec& mv = *s[i].v;
                const auto mdb = reinterpret_cast<uintptr_t>(mv.data_begin());
                const Block* mblk = mdb ? ledger().find_live(mdb) : nullptr;
                if (mblk)
                {
                    ++residual;
                    if (mv.memory_consumption() > mblk->bytes)
                        viol("C05,C02", "memory_consumption_exceeds_block", fmt("moved-from v%d: memory_consumption() == %zu but it owns a block of %zu bytes", i, mv.memory_consumption(), mblk->bytes));
                }
                else if (mv.memory_consumption() != 0)
                    viol("C05,C02", "moved_from_reports_memory", fmt("moved-from v%d owns no block but memory_consumption() == %zu", i, mv.memory_consumption()));
                if (m.residual) expect_tracked_optional += m.residual_objects;
                continue;
            }
            char who[8];
            snprintf(who, sizeof who, "v%d", i);
            if (!Mon::check(*s[i].v, m, cur_op.c_str(), cur_pre.c_str(), who)) { cut = true; return; }
            const auto db = reinterpret_cast<uintptr_t>(std::as_const(*s[i].v).data_begin());
            if (db) ++data_owners;
            for (auto& e : m.e)
                for (size_t k = 0; k < NF; ++k)
                    if (Cfg::fields()[k].tracked) expect_tracked += e.f[k].size();
            digest = mix(digest, m.e.size() * 31 + s[i].v->capacity());
            for (auto f : m.fixed) digest = mix(digest, f + 7);
            for (auto& e : m.e) digest = mix(digest, e.id);
            flags_from_state(*s[i].v, m);
        }
        // C06: the live objects are exactly the logically held ones
        registry().sweep();
        if (Cfg::HAS_TRACKED && (registry().live.size() < expect_tracked || registry().live.size() > expect_tracked + expect_tracked_optional))
            viol("C06", "live_set_mismatch", fmt("%zu instrumented objects are alive, the containers logically hold %zu (plus at most %zu moved-from objects in moved-from vectors)", registry().live.size(), expect_tracked, expect_tracked_optional));
        // every live object sits inside a live block
        for (auto& [a, e] : registry().live)
            if (!ledger().find_live(a))
            {
                viol("C06", "live_object_outside_block", fmt("live object at %#zx is not inside a live block", size_t(a)));
                break;
            }
        // C07: no block without an owner (leak in progress), never more tables than vectors
        const size_t data_blocks = ledger().live_count(TAG_DATA);
        const size_t table_blocks = ledger().live_count(TAG_TABLE);
        if (data_blocks > data_owners + residual)
            viol("C07", "block_orphaned", fmt("%zu data blocks are allocated but only %zu containers own storage", data_blocks, data_owners + residual));
        if (table_blocks > vecs)
            viol("C07", "table_block_orphaned", fmt("%zu bookkeeping blocks are allocated for %zu vectors", table_blocks, vecs));
        counters().add("steps_checked");
        if (out().viol_in_case) cut = true;
    }

    void flags_from_state(const Vec& v, const MVec& m)
    {
        const auto& f = Cfg::fields();
        if (m.e.size() == m.cap && m.cap != 0 && Cfg::HAS_VARYING && Mon::payload(m) == m.budget && m.budget != 0)
        {
            std::set<size_t> lens;
            for (auto& e : m.e)
                for (size_t k = 0; k < NF; ++k)
                    if (f[k].kind == 'V') lens.insert(e.f[k].size());
            if (lens.size() >= 2) cf.full_exact_budget = true;
        }
        if (!Cfg::HAS_VARYING && m.e.size() == m.cap && m.cap >= 2) cf.full_exact_budget = true;
        for (auto& e : m.e)
        {
            for (size_t k = 1; k < NF; ++k)
                if (f[k].align_declared && f[k - 1].is_span() && (f[k - 1].size * e.f[k - 1].size()) % f[k].align != 0) cf.aligned_after_odd_span = true;
            if (NF >= 3)
                for (size_t k = 0; k < NF; ++k)
                    if (f[k].is_span() && (e.f[k].empty() || (k + 1 < NF && f[k + 1].is_span() && e.f[k + 1].size() != e.f[k].size()))) cf.zero_or_unequal_span = true;
        }
        if (NF < 3 && m.e.size() >= 2) cf.zero_or_unequal_span = true;
        (void)v;
    }

    // --------------------------------------------------------------------------------------------- operations
    void after_mutating_step()
    {
        if (cf.pending_reloc) cf.reloc_then_mutation = true;
    }

    void op_construct(int i, bool force_small = false)
    {
        MVec m;
        m.exists = true;
        m.cap = rng.chance(1, 10) ? 0 : static_cast<size_t>(rng.range(force_small ? 1 : 0, static_cast<int64_t>(lim.max_cap)));
        m.fixed = gen_fixed();
        m.arena = pick_arena();
        if (Cfg::HAS_VARYING)
        {
            const size_t per = max_item_bytes();
            m.budget = rng.chance(1, 10) ? 0 : static_cast<size_t>(rng.range(0, static_cast<int64_t>(m.cap * per * lim.max_span / 2 + per)));
        }
        begin_op(OP_CONSTRUCT, -1, -1, fmt("v%d,n=%zu,b=%zu,fixed=%s,arena=%d", i, m.cap, m.budget, jarr_num(m.fixed).c_str(), m.arena));
        const auto a = before();
        {
            LibCall lc;
            construct_vec(s[i].v, m.cap, m.budget, m.fixed, m.arena);
        }
        s[i].m = m;
        cf.data_allocs += 1;
        (void)a;
        check_all("construct");
    }

    void op_default_construct(int i)
    {
        MVec m;
        m.exists = true;
        m.default_constructed = true;
        m.fixed.assign(Cfg::N_FIXED, 0);
        m.arena = 0;
        begin_op(OP_DEFAULT_CONSTRUCT, -1, -1, fmt("v%d", i));
        const auto a = before();
        {
            // default-INITIALISATION (`Vec v;`) in storage that held something else before: members without an initialiser
            // are indeterminate then (value-initialisation, as std::optional::emplace() does, would zero them first)
            alignas(Vec) unsigned char buf[sizeof(Vec)];
            const unsigned char junk_byte[4] = {0x00, 0xFF, 0xA5, 0x3C};
            std::memset(buf, junk_byte[ledger().junk % 4], sizeof buf);
            LibCall lc;
            Vec* p = ::new (static_cast<void*>(buf)) Vec;
            s[i].v.emplace(std::move(*p));
            p->~Vec();
        }
        {
            // whatever fixed sizes a default-constructed vector reports must at least be determinate and usable
            const auto fs = Mon::fixed_sizes(std::as_const(*s[i].v));
            for (size_t k = 0; k < fs.size(); ++k)
                if (fs[k] > 64)
                {
                    viol("C18", "default_constructed_fixed_size_indeterminate", fmt("get_fixed_size<%zu>() of a default-constructed vector is %zu (depends on what the storage held before)", k, fs[k]));
                    s[i].m = m;
                    cut = true;
                    return;
                }
            m.fixed = fs;
        }
        s[i].m = m;
        no_allocator_traffic(a, "default construction");
        check_all("default_construct");
    }

    bool can_emplace(const MVec& m) const { return m.exists && !m.moved_from && m.e.size() < m.cap; }

    void op_emplace(int i, int style = 0)
    {
        MVec& m = s[i].m;
        MElem e = gen_elem(m, style);
        const int form = rng.chance(1, 4) ? static_cast<int>(rng.range(1, 2)) : 0;  // source form, see Glue::emplace_back
        begin_op(OP_EMPLACE_BACK, i, -1, fmt("v%d,id=%" PRIu64 ",counts=%s,src=%d", i, e.id, jarr_num(counts_of(e)).c_str(), form));
        const auto a = before();
        G::emplace_back(*s[i].v, e, form);
        m.e.push_back(std::move(e));
        m.ever_held = true;
        no_allocator_traffic(a, "emplace_back within capacity");
        stable(a, i, "emplace_back within capacity");
        after_mutating_step();
        ++cf.quiet_streak;
        check_all("emplace_back");
    }

    void op_fill(int i)
    {
        // adversarial split of the remaining budget over the remaining slots
        MVec& m = s[i].m;
        const int mode = static_cast<int>(rng.range(0, 4));
        begin_op(OP_FILL, i, -1, fmt("v%d,mode=%d", i, mode));
        int k = 0;
        while (can_emplace(m) && !cut)
        {
            const size_t left = m.cap - m.e.size();
            int style;
            switch (mode)
            {
                case 0: style = k == 0 ? 2 : 1; break;         // everything in the first element
                case 1: style = left == 1 ? 2 : 1; break;      // everything in the last element
                case 2: style = (k % 2) ? 2 : 1; break;        // alternate empty / large
                case 3: style = left == 1 ? 2 : 3; break;      // minimal ones then the rest
                default: style = left == 1 ? 2 : 0;            // random, last one takes the rest
            }
            op_emplace(i, style);
            ++k;
        }
    }

    void op_pop_back(int i)
    {
        MVec& m = s[i].m;
        begin_op(OP_POP_BACK, i, -1, fmt("v%d", i));
        const auto a = before();
        {
            LibCall lc;
            s[i].v->pop_back();
        }
        m.e.pop_back();
        no_allocator_traffic(a, "pop_back");
        stable(a, i, "pop_back");
        after_mutating_step();
        ++cf.quiet_streak;
        if (m.e.empty()) cf.empty_nonfresh = true;
        check_all("pop_back");
    }

    // bytes an element occupies including the padding up to the next element start
    size_t elem_stride_bytes(const MElem& e) const
    {
        const Layout l = compute_layout(Cfg::fields(), counts_of(e));
        return align_up(l.size, l.max_align);
    }

    // known finding KF-erase-overlap: erase on a list with non-trivial varying elements relocates a later element into
    // storage that overlaps its own old location when the gap (bytes removed) is smaller than that element
    bool erase_would_overlap(const MVec& m, size_t first, size_t last) const
    {
        if (!Cfg::HAS_VARYING || Cfg::ALL_TRIVIALLY_COPYABLE) return false;
        size_t gap = 0;
        for (size_t k = first; k < last; ++k) gap += elem_stride_bytes(m.e[k]);
        for (size_t k = last; k < m.e.size(); ++k)
            if (elem_stride_bytes(m.e[k]) > gap) return true;
        return false;
    }

    void op_erase_pos(int i)
    {
        MVec& m = s[i].m;
        const size_t idx = static_cast<size_t>(rng.below(m.e.size()));
        if (avoid.count("erase_overlap") && erase_would_overlap(m, idx, idx + 1))
        {
            ++avoided;
            counters().add("avoided:erase_overlap");
            return;
        }
        const bool overlap = erase_would_overlap(m, idx, idx + 1);
        begin_op(OP_ERASE_POS, i, -1, fmt("v%d,idx=%zu,overlap=%d", i, idx, int(overlap)));
        if (overlap) cf.overlap_reloc_or_unequal_transfer = true;
        const auto a = before();
        size_t ret_index;
        bool ret_eq;
        {
            LibCall lc;
            auto it = s[i].v->erase(s[i].v->begin() + static_cast<std::ptrdiff_t>(idx));
            ret_index = static_cast<size_t>(it - s[i].v->begin());
            ret_eq = it == s[i].v->begin() + static_cast<std::ptrdiff_t>(idx);
        }
        const bool relocating = idx + 1 < m.e.size();
        m.e.erase(m.e.begin() + static_cast<std::ptrdiff_t>(idx));
        if (ret_index != idx || !ret_eq) viol("C01", "erase_return", fmt("erase(begin()+%zu) returned the iterator with index %zu", idx, ret_index));
        no_allocator_traffic(a, "erase");
        stable(a, i, "erase (elements in front of the position)", idx);
        after_mutating_step();
        if (relocating && m.e.size() >= 1) cf.pending_reloc = true;
        ++cf.quiet_streak;
        if (m.e.empty()) cf.empty_nonfresh = true;
        check_all("erase_pos");
    }

    void op_erase_range(int i)
    {
        MVec& m = s[i].m;
        const size_t n = m.e.size();
        size_t first = static_cast<size_t>(rng.below(n + 1));
        size_t last = first + static_cast<size_t>(rng.below(n - first + 1));
        if (rng.chance(1, 6)) { first = 0; last = n; }
        if (rng.chance(1, 10)) last = first;
        if (avoid.count("erase_overlap") && first != last && erase_would_overlap(m, first, last))
        {
            ++avoided;
            counters().add("avoided:erase_overlap");
            return;
        }
        const bool overlap = first != last && erase_would_overlap(m, first, last);
        begin_op(OP_ERASE_RANGE, i, -1, fmt("v%d,first=%zu,last=%zu,overlap=%d", i, first, last, int(overlap)));
        if (overlap) cf.overlap_reloc_or_unequal_transfer = true;
        const auto a = before();
        size_t ret_index;
        {
            LibCall lc;
            auto it = s[i].v->erase(s[i].v->begin() + static_cast<std::ptrdiff_t>(first), s[i].v->begin() + static_cast<std::ptrdiff_t>(last));
            ret_index = static_cast<size_t>(it - s[i].v->begin());
        }
        const bool relocating = last < n && first != last;
        m.e.erase(m.e.begin() + static_cast<std::ptrdiff_t>(first), m.e.begin() + static_cast<std::ptrdiff_t>(last));
        if (ret_index != first) viol("C01", "erase_return", fmt("erase(begin()+%zu, begin()+%zu) returned the iterator with index %zu", first, last, ret_index));
        no_allocator_traffic(a, "erase");
        stable(a, i, "erase (elements in front of the range)", first);
        after_mutating_step();
        if (relocating) cf.pending_reloc = true;
        ++cf.quiet_streak;
        if (m.e.empty() && n != 0) cf.empty_nonfresh = true;
        check_all("erase_range");
    }

    void op_clear(int i)
    {
        MVec& m = s[i].m;
        begin_op(OP_CLEAR, i, -1, fmt("v%d", i));
        const bool was_moved = m.moved_from;
        const auto a = before();
        {
            LibCall lc;
            s[i].v->clear();
        }
        if (was_moved)
        {
            // C09: a moved-from vector can be cleared; afterwards it is an empty vector whose capacity is whatever it reports
            m.moved_from = false;
            m.residual = false;
            m.residual_objects = 0;
            m.e.clear();
            m.cap = std::as_const(*s[i].v).capacity();
            m.budget = 0;
            m.fresh_block = false;
            if (std::as_const(*s[i].v).size() != 0) viol("C09", "moved_from_clear", fmt("size() == %zu after clear() of a moved-from vector", std::as_const(*s[i].v).size()));
            cf.empty_nonfresh = true;
        }
        else
        {
            if (!m.e.empty()) cf.empty_nonfresh = true;
            m.e.clear();
            stable(a, i, "clear");
        }
        no_allocator_traffic(a, "clear");
        after_mutating_step();
        ++cf.quiet_streak;
        check_all("clear");
    }

    void op_reserve(int i)
    {
        MVec& m = s[i].m;
        size_t n;
        const int r = static_cast<int>(rng.range(0, 9));
        if (r < 2) n = static_cast<size_t>(rng.range(0, static_cast<int64_t>(m.cap)));  // not growing
        else if (r < 3) n = m.cap;
        else n = m.cap + static_cast<size_t>(rng.range(1, 4));
        const size_t held = Mon::payload(m);
        size_t b = 0;
        if (Cfg::HAS_VARYING)
        {
            const size_t per = max_item_bytes();
            b = held + static_cast<size_t>(rng.range(0, static_cast<int64_t>((n > m.e.size() ? n - m.e.size() : 0) * per * lim.max_span / 2 + per)));
            if (rng.chance(1, 8)) b = held;
            // also budgets below the current one: the new layout may then fit the block the vector already owns
            if (rng.chance(1, 4) && m.budget > held) b = held + static_cast<size_t>(rng.below((m.budget - held) / 2 + 1));
        }
        begin_op(OP_RESERVE, i, -1, fmt("v%d,n=%zu,b=%zu", i, n, b));
        const bool grows = n > m.cap;
        if (grows && !m.e.empty() && m.e.size() < m.cap) cf.grow_partial = true;
        if (grows && !m.e.empty() && m.e.size() >= 2) cf.pending_reloc = true;
        const auto a = before();
        const uint64_t ctm_before = CopyTrivMove8::move_constructions;
        {
            LibCall lc;
            if constexpr (Cfg::N_VARYING != 0)
                s[i].v->reserve(n, b);
            else
                s[i].v->reserve(n);
        }
        if (grows)
        {
            m.cap = n;
            m.budget = b;
            m.fresh_block = true;
            m.grown_by_reserve = true;
            m.default_constructed = false;
            cf.realloc_with_block = cf.realloc_with_block || a.snap[i].data_begin != 0;
            cf.data_allocs += 1;
            cf.quiet_streak = 0;
            if (std::as_const(*s[i].v).capacity() != n) viol("C10", "reserve_capacity", fmt("capacity() == %zu after reserve(%zu)", std::as_const(*s[i].v).capacity(), n));
            if (ledger().alloc_events != a.allocs)
            {
                // relocation into the new block goes through the move constructor of types that are not trivially copyable
                size_t ctm = 0;
                for (auto& e : m.e) ctm += objects_of_type(Cfg::fields(), e.f, "Ctm8");
                if (CopyTrivMove8::move_constructions - ctm_before < ctm)  // fewer: some objects were relocated as bytes
                    viol("C06", "relocation_bypasses_move_constructor", fmt("reserve relocated %zu objects of a type with trivial copy / user-provided move constructor, its move constructor ran %" PRIu64 " times", ctm, CopyTrivMove8::move_constructions - ctm_before));
            }
            check_footprint(i, a.snap[i].valid ? footprint_before[i] : 0, 0, "reserve");
            fill_after_reserve = rng.chance(1, 2);
        }
        else
        {
            if (ledger().alloc_events != a.allocs || ledger().dealloc_events != a.deallocs)
                viol("C10,C16", "non_growing_reserve_allocates", fmt("reserve(%zu) with capacity() == %zu touched the allocator", n, m.cap));
            stable(a, i, "reserve not exceeding capacity()");
            ++cf.quiet_streak;
        }
        check_all("reserve");
        if (fill_after_reserve && !cut)
        {
            // C10: after reserve the vector can hold n elements with b bytes of payload
            fill_after_reserve = false;
            op_fill(i);
        }
    }
    bool fill_after_reserve = false;

    size_t footprint_before[POOL]{};

    // C05 footprint clause: not more than max(before, source's, fresh vector with the same capacity and budget)
    void check_footprint(int i, size_t before_bytes, size_t source_bytes, const char* what)
    {
        if (cut || out().viol_in_case) return;
        MVec& m = s[i].m;
        const size_t now = std::as_const(*s[i].v).memory_consumption();
        size_t fresh;
        {
            std::optional<Vec> probe;
            construct_vec(probe, m.cap, m.budget, m.fixed, m.arena);
            fresh = std::as_const(*probe).memory_consumption();
        }
        const size_t bound = std::max({before_bytes, source_bytes, fresh});
        counters().add("footprints_checked");
        // known finding KF-move-assign-units is identified by its arithmetic: exactly alignment x the source's footprint
        if (now > bound && Cfg::MAX_ALIGN > 1 && source_bytes != 0 && now == source_bytes * Cfg::MAX_ALIGN && std::string(what).find("move assignment") == 0)
            violation("C05", "footprint_is_alignment_times_source", fmt("%s: memory_consumption() == %zu == %zu x the source's %zu (before %zu, fresh %zu)", what, now, Cfg::MAX_ALIGN, source_bytes, before_bytes, fresh), cur_op.c_str(), cur_pre.c_str(), true);
        else if (now > bound)
            viol("C05", "footprint_grew", fmt("%s: memory_consumption() == %zu, before %zu, source %zu, fresh vector with capacity %zu and budget %zu uses %zu", what, now, before_bytes, source_bytes, m.cap, m.budget, fresh));
        const auto db = reinterpret_cast<uintptr_t>(std::as_const(*s[i].v).data_begin());
        const Block* blk = db ? ledger().find_live(db) : nullptr;
        if (blk && blk->bytes > bound + Cfg::MAX_ALIGN && !(now > bound))
            viol("C05", "footprint_grew", fmt("%s: %zu bytes were requested from the allocator, bound is %zu", what, blk->bytes, bound));
    }

    void record_footprints()
    {
        for (int i = 0; i < POOL; ++i)
            footprint_before[i] = s[i].v ? std::as_const(*s[i].v).memory_consumption() : 0;  // an observer without preconditions: fine on moved-from vectors too
    }

    int soccc_arena(int src) const { return K::SOCCC_DEFAULT ? 0 : src; }

    void adopt_observed_capacity(int dst, const MVec& src)
    {
        // the properties do not fix capacity()/budget of a copy; take capacity from the public API like a user would
        MVec& m = s[dst].m;
        const size_t obs = std::as_const(*s[dst].v).capacity();
        m.cap = obs;
        m.budget = obs >= src.cap ? src.budget : Mon::payload(m);
    }

    void op_copy_construct(int dst, int src)
    {
        if constexpr (Cfg::ALL_COPYABLE)
        {
            begin_op(OP_COPY_CONSTRUCT, src, -1, fmt("v%d<-v%d", dst, src));
            const MVec sm = s[src].m;
            cnt_copy_expect = cnt_objects(sm);
            const auto a = before();
            {
                LibCall lc;
                s[dst].v.emplace(std::as_const(*s[src].v));
            }
            MVec m = sm;
            m.arena = soccc_arena(sm.arena);
            m.grown_by_reserve = false;
            m.fresh_block = sm.fresh_block;  // the copy gets a block as large as the source's, whatever that was sized for
            m.default_constructed = false;
            s[dst].m = m;
            adopt_observed_capacity(dst, sm);
            // an allocator whose select_on_container_copy_construction sends copies elsewhere (pmr-like): a copy that stays in
            // the source's memory resource is not independent of the source, it dies with the source's arena
            if (K::SOCCC_DEFAULT && std::as_const(*s[dst].v).get_allocator().get_arena() != soccc_arena(sm.arena))
                viol("C08,C09", "copy_shares_memory_resource_of_source", fmt("the copy allocates from arena %d, select_on_container_copy_construction of the source's allocator is arena %d", std::as_const(*s[dst].v).get_allocator().get_arena(), soccc_arena(sm.arena)));
            if (std::as_const(*s[dst].v).size() != sm.e.size()) viol("C09", "copy_size", fmt("copy has size() %zu, source %zu", std::as_const(*s[dst].v).size(), sm.e.size()));
            if (!sm.e.empty() && sm.e.size() < sm.cap) cf.partial_source_nonempty_target = true;
            cf.data_allocs += 1;
            (void)a;
            check_footprint(dst, 0, footprint_before[src], "copy construction");
            check_all("copy_construct");
        }
    }

    void op_move_construct(int dst, int src)
    {
        begin_op(OP_MOVE_CONSTRUCT, src, -1, fmt("v%d<-v%d", dst, src));
        const MVec sm = s[src].m;
        const auto a = before();
        {
            LibCall lc;
            s[dst].v.emplace(std::move(*s[src].v));
        }
        s[dst].m = sm;
        s[src].m.moved_from = true;
        s[src].m.residual = false;
        s[src].m.e.clear();
        no_allocator_traffic(a, "move construction");
        // ownership is exchanged: the target now has exactly the addresses the source had
        {
            const VecSnapshot now = Mon::snapshot(*s[dst].v, s[dst].m);
            if (a.snap[src].valid && (now.data_begin != a.snap[src].data_begin))
                viol("C16", "move_construct_not_exchange", fmt("data_begin() of the target %#zx differs from the source's former %#zx", size_t(now.data_begin), size_t(a.snap[src].data_begin)));
            if (a.snap[src].valid && now.elems.size() == a.snap[src].elems.size())
                for (size_t k = 0; k < now.elems.size(); ++k)
                    if (now.elems[k].f != a.snap[src].elems[k].f)
                    {
                        viol("C16", "move_construct_not_exchange", fmt("objects of element %zu changed address", k));
                        break;
                    }
        }
        ++cf.quiet_streak;
        check_all("move_construct");
    }

    void op_copy_assign(int dst, int src)
    {
        if constexpr (Cfg::ALL_COPYABLE)
        {
            begin_op(OP_COPY_ASSIGN, dst, src, fmt("v%d=v%d", dst, src));
            const MVec sm = s[src].m;
            MVec& dm = s[dst].m;
            const auto a = before();
            const bool self = dst == src;
            if (!self) cnt_copy_expect = cnt_objects(sm);
            if (!self && !dm.moved_from)
            {
                if (sm.e.size() > dm.e.size()) cf.assign_grow = true;
                if (sm.e.size() < dm.e.size()) cf.assign_shrink = true;
                if (!sm.e.empty() && sm.e.size() < sm.cap && !dm.e.empty()) cf.partial_source_nonempty_target = true;
                if (!K::ALWAYS_EQUAL && sm.arena != dm.arena) cf.unequal_arena_transfer = cf.overlap_reloc_or_unequal_transfer = true;
            }
            {
                LibCall lc;
                *s[dst].v = std::as_const(*s[src].v);
            }
            if (self)
            {
                no_allocator_traffic(a, "self copy assignment");
                stable(a, dst, "self copy assignment");
            }
            else
            {
                const int arena = K::POCCA ? sm.arena : dm.arena;
                const size_t before_bytes = footprint_before[dst];
                dm = sm;
                dm.arena = arena;
                dm.fresh_block = false;
                dm.grown_by_reserve = false;
                dm.default_constructed = false;
                adopt_observed_capacity(dst, sm);
                if (ledger().alloc_events != a.allocs) { cf.realloc_with_block = cf.realloc_with_block || a.snap[dst].data_begin != 0; cf.data_allocs += 1; }
                check_footprint(dst, before_bytes, footprint_before[src], "copy assignment");
            }
            cf.quiet_streak = 0;
            check_all("copy_assign");
        }
    }

    void op_move_assign(int dst, int src)
    {
        begin_op(OP_MOVE_ASSIGN, dst, src, fmt("v%d=move(v%d)", dst, src));
        const MVec sm = s[src].m;
        MVec& dm = s[dst].m;
        const auto a = before();
        const bool self = dst == src;
        const bool steal = K::ALWAYS_EQUAL || K::POCMA || sm.arena == dm.arena;
        if (!self && !dm.moved_from)
        {
            if (sm.e.size() > dm.e.size()) cf.assign_grow = true;
            if (sm.e.size() < dm.e.size()) cf.assign_shrink = true;
            if (!sm.e.empty() && sm.e.size() < sm.cap && !dm.e.empty()) cf.partial_source_nonempty_target = true;
            if (!K::ALWAYS_EQUAL && sm.arena != dm.arena) cf.unequal_arena_transfer = cf.overlap_reloc_or_unequal_transfer = true;
        }
        const uint64_t moves_before = registry().move_constructed;
        const uint64_t ctm_before = CopyTrivMove8::move_constructions;
        {
            LibCall lc;
            *s[dst].v = std::move(*s[src].v);
        }
        if (self)
        {
            no_allocator_traffic(a, "self move assignment");
            stable(a, dst, "self move assignment");
        }
        else
        {
            const int arena = K::POCMA ? sm.arena : dm.arena;
            const size_t before_bytes = footprint_before[dst];
            dm = sm;
            dm.arena = arena;
            dm.default_constructed = false;
            MVec& srcm = s[src].m;
            srcm.moved_from = true;
            if (steal)
            {
                srcm.residual = false;
                srcm.residual_objects = 0;
                if (ledger().alloc_events != a.allocs) viol("C16,C08", "stealing_move_assign_allocates", "move assignment between equal / propagating allocators allocated");
                adopt_observed_capacity(dst, sm);
            }
            else
            {
                // C08: element-wise transfer into memory of the target's allocator
                srcm.residual = true;
                size_t objs = 0;
                for (auto& e : sm.e)
                    for (size_t k = 0; k < NF; ++k)
                        if (Cfg::fields()[k].tracked) objs += e.f[k].size();
                srcm.residual_objects = objs;
                dm.fresh_block = false;
                adopt_observed_capacity(dst, sm);
                {
                    size_t ctm = 0;
                    for (auto& e : sm.e) ctm += objects_of_type(Cfg::fields(), e.f, "Ctm8");
                    if (CopyTrivMove8::move_constructions - ctm_before < ctm)
                        viol("C08,C06", "relocation_bypasses_move_constructor", fmt("move assignment between unequal non-propagating allocators ran the move constructor of %" PRIu64 " objects of a type with trivial copy / user-provided move, the source held %zu", CopyTrivMove8::move_constructions - ctm_before, ctm));
                }
                if (Cfg::HAS_TRACKED && registry().move_constructed - moves_before != objs)
                    viol("C08,C06", "elementwise_move_count", fmt("move assignment between unequal non-propagating allocators move-constructed %" PRIu64 " instrumented objects, the source held %zu", registry().move_constructed - moves_before, objs));
                if (ledger().alloc_events != a.allocs) { cf.realloc_with_block = cf.realloc_with_block || a.snap[dst].data_begin != 0; cf.data_allocs += 1; }
                check_footprint(dst, before_bytes, footprint_before[src], "move assignment (unequal allocators)");
            }
            srcm.e.clear();
        }
        cf.quiet_streak = 0;
        check_all("move_assign");
    }

    void op_swap(int x, int y)
    {
        begin_op(OP_SWAP, x, y, fmt("v%d<->v%d", x, y));
        const auto a = before();
        {
            LibCall lc;
            using std::swap;
            swap(*s[x].v, *s[y].v);
        }
        if (x != y)
        {
            const int ax = s[x].m.arena, ay = s[y].m.arena;
            std::swap(s[x].m, s[y].m);
            if (!K::POCS)
            {
                // allocators stay (they are equal, otherwise the swap is not generated)
                s[x].m.arena = ax;
                s[y].m.arena = ay;
            }
            // swapping with an empty vector (default-constructed, capacity 0, emptied, moved-from) is a complete swap like any
            // other: the allocators are exchanged under POCS (C08's rule, C18's business when an operand is empty)
            if (s[x].m.e.empty() || s[y].m.e.empty())
                for (int p : {x, y})
                    if (std::as_const(*s[p].v).get_allocator().get_arena() != s[p].m.arena)
                        viol("C08,C18", "allocator_identity_after_swap_with_empty_vector", fmt("v%d: get_allocator() is arena %d after the swap, expected %d (propagate_on_container_swap is %s)", p, std::as_const(*s[p].v).get_allocator().get_arena(), s[p].m.arena, K::POCS ? "true" : "false"));
            // exchange of ownership: addresses are exchanged exactly
            for (auto [p, q] : {std::pair{x, y}, std::pair{y, x}})
            {
                if (!a.snap[q].valid || s[p].m.moved_from) continue;
                const VecSnapshot now = Mon::snapshot(*s[p].v, s[p].m);
                if (now.data_begin != a.snap[q].data_begin) viol("C16", "swap_not_exchange", fmt("data_begin() of v%d %#zx is not the former data_begin() of v%d %#zx", p, size_t(now.data_begin), q, size_t(a.snap[q].data_begin)));
                if (now.elems.size() == a.snap[q].elems.size())
                    for (size_t k = 0; k < now.elems.size(); ++k)
                        if (now.elems[k].f != a.snap[q].elems[k].f)
                        {
                            viol("C16", "swap_not_exchange", fmt("objects of element %zu changed address", k));
                            break;
                        }
            }
        }
        else
            stable(a, x, "self swap");
        no_allocator_traffic(a, "swap");
        ++cf.quiet_streak;
        check_all("swap");
    }

    void op_destroy(int i)
    {
        begin_op(OP_DESTROY, i, -1, fmt("v%d", i));
        {
            LibCall lc;
            s[i].v.reset();
        }
        s[i].m = MVec{};
        check_all("destroy");
    }

    void op_mutate(int i)
    {
        MVec& m = s[i].m;
        const size_t idx = static_cast<size_t>(rng.below(m.e.size()));
        // pick a writable item: not a count field, non-empty
        std::vector<std::pair<size_t, size_t>> cand;
        for (size_t k = 0; k < NF; ++k)
            if (Cfg::fields()[k].kind != 'C')
                for (size_t t = 0; t < m.e[idx].f[k].size(); ++t) cand.emplace_back(k, t);
        if (cand.empty()) return;
        const auto [k, t] = cand[rng.below(cand.size())];
        const int64_t raw = static_cast<int64_t>(next_id++ * 64 + k * 8 + 7);
        begin_op(OP_MUTATE, i, -1, fmt("v%d[%zu].f%zu[%zu]=%" PRId64, i, idx, k, t, raw));
        const auto a = before();
        {
            LibCall lc;
            G::set_item((*s[i].v)[idx], k, t, raw);
        }
        m.e[idx].f[k][t] = G::project_field(k, raw);
        no_allocator_traffic(a, "assignment through a reference");
        stable(a, i, "assignment through a reference");
        after_mutating_step();
        check_all("mutate");
    }

    // Iterator objects that live as long as the engine: they outlive reallocation, assignment and destruction of the vectors
    // they pointed into. Assigning a new position to such an object (a valid use of an invalidated iterator) must make it
    // denote the new element completely: values, span counts and data() (C11, C04).
    typename Vec::const_iterator persist_cit{};
    typename Vec::iterator persist_it{};

    void op_reseat(int i)
    {
        MVec& m = s[i].m;
        Vec& vec = *s[i].v;
        const size_t idx = static_cast<size_t>(rng.below(m.e.size()));
        const int form = static_cast<int>(rng.below(5));
        static const char* const names[] = {"const_iterator = iterator", "const_iterator = const_iterator", "iterator = iterator; const_iterator = it", "fresh const_iterator = iterator", "iterator = iterator"};
        begin_op(OP_RESEAT, i, -1, fmt("v%d,idx=%zu,form=%s", i, idx, names[form]));
        ++cf.reseats;
        const auto a = before();
        const auto off = static_cast<std::ptrdiff_t>(idx);
        bool via_mutable = false;
        {
            LibCall lc;
            switch (form)
            {
                case 0: persist_cit = vec.begin() + off; break;
                case 1: persist_cit = std::as_const(vec).begin() + off; break;
                case 2:
                    persist_it = vec.begin() + off;
                    persist_cit = persist_it;
                    break;
                case 3:
                {
                    typename Vec::const_iterator fresh{};
                    fresh = vec.begin() + off;
                    persist_cit = fresh;
                    break;
                }
                default:
                    persist_it = vec.begin() + off;
                    via_mutable = true;
                    break;
            }
        }
        const auto& cv = std::as_const(vec);
        auto inspect = [&](const auto& it, const char* what)
        {
            if (it.index() != idx || (it - typename std::decay_t<decltype(it)>(cv.begin() + 0)) != off)
                viol("C11", "reseated_iterator_index", fmt("%s: index() == %zu after assigning the position %zu", what, it.index(), idx));
            const auto ref = *it;
            const auto want = G::addresses(cv[idx]);
            const auto have = G::addresses(ref);
            for (size_t k = 0; k < NF; ++k)
                if (want[k].begin != have[k].begin || want[k].count != have[k].count)
                {
                    viol("C11,C04", "reseated_iterator_denotes_other_storage", fmt("%s: field %zu through the re-assigned iterator is [%#zx, %zu items), through operator[] it is [%#zx, %zu items)", what, k, size_t(have[k].begin), have[k].count, size_t(want[k].begin), want[k].count));
                    return;
                }
            if (reinterpret_cast<uintptr_t>(it.data()) != reinterpret_cast<uintptr_t>(cv[idx].data_begin()))
                viol("C11,C04", "reseated_iterator_data", fmt("%s: data() differs from data_begin() of the element it was assigned", what));
            const MElem got = G::read(ref);
            if (!elem_match(m.e[idx], got)) viol("C11", "reseated_iterator_value_mismatch", fmt("%s: got %s expected %s", what, elem_str(got).c_str(), elem_str(m.e[idx]).c_str()));
        };
        if (via_mutable)
            inspect(persist_it, names[form]);
        else
            inspect(persist_cit, names[form]);
        if (form == 2 && !(persist_cit == typename Vec::const_iterator(persist_it))) viol("C11", "reseated_iterator_compare", "const_iterator assigned from an iterator does not compare equal to it");
        no_allocator_traffic(a, "iterator assignment");
        stable(a, i, "iterator assignment");
        ++cf.quiet_streak;
        check_all("iterator_reseat");
    }

    // --------------------------------------------------------------------------------------------- driver
    int pick_slot(const std::function<bool(const Slot&)>& pred)
    {
        std::vector<int> c;
        for (int i = 0; i < POOL; ++i)
            if (pred(s[i])) c.push_back(i);
        return c.empty() ? -1 : c[rng.below(c.size())];
    }

    bool swap_allowed(int x, int y) const { return K::ALWAYS_EQUAL || K::POCS || s[x].m.arena == s[y].m.arena; }

    void step_once()
    {
        record_footprints();
        int total = 0;
        for (int w : prof.w) total += w;
        int r = static_cast<int>(rng.below(static_cast<uint64_t>(total)));
        int k = 0;
        for (; k < OP_COUNT; ++k)
        {
            if (r < prof.w[k]) break;
            r -= prof.w[k];
        }
        auto usable = [](const Slot& x) { return x.v && !x.m.moved_from; };
        auto nonempty = [](const Slot& x) { return x.v && !x.m.moved_from && !x.m.e.empty(); };
        auto exists = [](const Slot& x) { return bool(x.v); };
        auto vacant = [](const Slot& x) { return !x.v; };
        switch (k)
        {
            case OP_CONSTRUCT: { int i = pick_slot(vacant); if (i >= 0) op_construct(i); break; }
            case OP_DEFAULT_CONSTRUCT: { int i = pick_slot(vacant); if (i >= 0) op_default_construct(i); break; }
            case OP_EMPLACE_BACK: { int i = pick_slot([&](const Slot& x) { return can_emplace(x.m); }); if (i >= 0) op_emplace(i, rng.chance(1, 6) ? static_cast<int>(rng.range(1, 3)) : 0); break; }
            case OP_FILL: { int i = pick_slot([&](const Slot& x) { return can_emplace(x.m); }); if (i >= 0) op_fill(i); break; }
            case OP_POP_BACK: { int i = pick_slot(nonempty); if (i >= 0) op_pop_back(i); break; }
            case OP_ERASE_POS: { int i = pick_slot(nonempty); if (i >= 0) op_erase_pos(i); break; }
            case OP_ERASE_RANGE: { int i = pick_slot(usable); if (i >= 0) op_erase_range(i); break; }
            case OP_CLEAR: { int i = pick_slot(exists); if (i >= 0) op_clear(i); break; }
            case OP_RESERVE: { int i = pick_slot(usable); if (i >= 0) op_reserve(i); break; }
            case OP_COPY_CONSTRUCT: { int d = pick_slot(vacant), sc = pick_slot(usable); if (d >= 0 && sc >= 0) op_copy_construct(d, sc); break; }
            case OP_MOVE_CONSTRUCT: { int d = pick_slot(vacant), sc = pick_slot(usable); if (d >= 0 && sc >= 0) op_move_construct(d, sc); break; }
            case OP_COPY_ASSIGN: { int d = pick_slot(exists), sc = pick_slot(usable); if (d >= 0 && sc >= 0 && !(d == sc && s[d].m.moved_from)) op_copy_assign(d, sc); break; }
            case OP_MOVE_ASSIGN:
            {
                int d = pick_slot(exists), sc = pick_slot(usable);
                if (d < 0 || sc < 0 || (d == sc && s[d].m.moved_from)) break;
                // known finding KF-move-assign-units multiplies the footprint by the alignment on every element-wise move
                // assignment into a smaller target; keep chains of it from exhausting memory
                const bool elementwise = !(K::ALWAYS_EQUAL || K::POCMA || s[sc].m.arena == s[d].m.arena);
                if (avoid.count("move_assign_inflation") && elementwise && footprint_before[sc] > footprint_before[d] && footprint_before[sc] > 16384)
                {
                    ++avoided;
                    counters().add("avoided:move_assign_inflation");
                    break;
                }
                op_move_assign(d, sc);
                break;
            }
            case OP_SWAP: { int x = pick_slot(exists), y = pick_slot(exists); if (x >= 0 && y >= 0 && swap_allowed(x, y)) op_swap(x, y); break; }
            case OP_DESTROY: { int i = pick_slot(exists); if (i >= 0) op_destroy(i); break; }
            case OP_MUTATE: { int i = pick_slot(nonempty); if (i >= 0) op_mutate(i); break; }
            case OP_RESEAT: { int i = pick_slot(nonempty); if (i >= 0) op_reseat(i); break; }
        }
    }

    void end_of_case()
    {
        // destroy everything: nothing may remain allocated or alive
        for (int i = 0; i < POOL; ++i)
            if (s[i].v && !cut) op_destroy(i);
        if (!cut)
        {
            cur_op = "end_of_case";
            cur_pre = "all-destroyed";
            set_ctx(case_no, step, "end_of_case", "all-destroyed", "C07", "");
            for (auto& [base, b] : ledger().blocks)
                if (b.live)
                    viol("C07", b.tag == TAG_TABLE ? "table_block_leaked" : "block_leaked", fmt("block %#zx (+%zu bytes, tag %d, arena %d, allocated at step %" PRId64 ") is still allocated after every container was destroyed", size_t(base), b.bytes, b.tag, b.arena, b.step));
            if (!registry().live.empty()) viol("C06", "objects_never_destroyed", fmt("%zu instrumented objects were never destroyed", registry().live.size()));
        }
    }

    void abandon_case()
    {
        // state is suspect: do not run destructors of possibly corrupted containers; leak them deliberately
        for (int i = 0; i < POOL; ++i)
        {
            if (s[i].v)
            {
                auto* leak = new std::optional<Vec>(std::move(s[i].v));  // NOLINT: never destroyed on purpose
                (void)leak;
                s[i].v.reset();
            }
            s[i].m = MVec{};
        }
    }

    uint64_t run_case(uint64_t seed, int64_t cno, int junk, int placement)
    {
        rng = Rng(mix(seed, static_cast<uint64_t>(cno)));
        case_no = cno;
        step = 0;
        cut = false;
        cf = CaseFlags{};
        digest = 0;
        next_id = 1;
        out().viol_in_case = 0;
        out().soft_in_case = 0;
        ledger().junk = junk;
        ledger().junk_rng = Rng(mix(seed, 777 + static_cast<uint64_t>(cno)));
        ledger().placement = placement;
        const int nsteps = static_cast<int>(rng.range(lim.max_steps / 2, lim.max_steps));
        for (; step < nsteps && !cut; ++step)
        {
            out().cur_step = step;
            step_once();
            cf.max_quiet_streak = std::max(cf.max_quiet_streak, cf.quiet_streak);
        }
        steps_total += static_cast<uint64_t>(step);
        if (!cut)
            end_of_case();
        if (cut) abandon_case();
        const bool clean = !cut && out().viol_in_case == 0;
        registry().reset();
        if (clean)
            ledger().reset();
        else
        {
            // keep quarantined memory mapped: leaked containers still point into it
            ledger().blocks.clear();
        }
        return digest;
    }
};
}  // namespace

int main(int argc, char** argv)
{
    Args args(argc, argv);
    open_out(args);
    ledger().release_hook = registry_release_hook;
    using Cfg = VF_CFG;
    using K = VF_KIND;
    Engine<Cfg, K> e;
    e.prof = make_profile(args.str("profile", "uniform"));
    e.lim.max_cap = static_cast<size_t>(args.num("max-cap", 8));
    e.lim.max_span = static_cast<size_t>(args.num("max-span", 6));
    e.lim.max_fixed = static_cast<size_t>(args.num("max-fixed", 4));
    e.lim.max_steps = static_cast<int>(args.num("max-steps", 40));
    {
        std::string av = args.str("avoid", "");
        size_t pos = 0;
        while (pos < av.size())
        {
            size_t c = av.find(',', pos);
            if (c == std::string::npos) c = av.size();
            if (c > pos) e.avoid.insert(av.substr(pos, c - pos));
            pos = c + 1;
        }
    }
    const uint64_t seed = static_cast<uint64_t>(args.num("seed", 1));
    const int64_t from = args.num("from", 0), to = args.num("to", 10);
    const bool differential = args.has("junk-diff");
    emit(J().kv("t", "hello").kv("engine", "hist").kv("cfg", VF_CFG_STR).kv("kind", K::name()).kv("category", Cfg::category()).kv("profile", e.prof.name).kv("asan", bool(VF_ASAN)).str());
    for (int64_t c = from; c < to; ++c)
    {
        emit(J().kv("t", "case_begin").kv("case", c).str());
        arm_case_watchdog(40);
        const int junk = static_cast<int>((seed + static_cast<uint64_t>(c)) % 4);
        const int placement = static_cast<int>((static_cast<uint64_t>(c) / 4) % 2);
        const uint64_t d1 = e.run_case(seed, c, junk, placement);
        auto cf = e.cf;
        const int v1 = out().viol_in_case;
        bool diff_run = false;
        if (differential && v1 == 0)
        {
            // same history under another junk pattern: observations must not depend on what the memory held before
            diff_run = true;
            const uint64_t d2 = e.run_case(seed, c, (junk + 1 + static_cast<int>(c % 3)) % 4, placement);
            if (out().viol_in_case == 0 && d1 != d2)
                violation("C18,C01", "junk_dependent_observations", "the same history observed different sizes/capacities under two junk patterns", "case", "");
        }
        std::string nt = "{";
        nt += fmt("\"C01\":%d,\"C02\":%d,\"C03\":%d,\"C04\":%d,\"C05\":%d,\"C06\":%d,\"C07\":%d,\"C08\":%d,\"C09\":%d,\"C10\":%d,\"C16\":%d,\"C18\":%d,\"C11\":%d}", int(cf.reloc_then_mutation), int(cf.full_exact_budget),
                  int(cf.aligned_after_odd_span), int(cf.zero_or_unequal_span), int(cf.realloc_with_block), int(cf.overlap_reloc_or_unequal_transfer), int(cf.data_allocs >= 3 && cf.assign_grow && cf.assign_shrink),
                  int(cf.unequal_arena_transfer), int(cf.partial_source_nonempty_target), int(cf.grow_partial), int(cf.max_quiet_streak >= 10), int(cf.empty_nonfresh), int(cf.reseats >= 2));
        J j;
        j.kv("t", "case_end").kv("case", c).kv("steps", static_cast<int64_t>(e.step)).kv("viol", out().viol_in_case + v1).kv("hash", fmt("%016" PRIx64, cf.hash)).raw("nt", nt).kv("junk_diff", diff_run);
        if (c - from < 2) j.raw("trace", jarr_str(cf.trace));
        emit(j.str());
        if (out().viol_in_case + v1 != 0 && c + 1 < to)
        {
            // the process state is suspect after a violation: let the driver start a fresh process for the remaining cases
            emit(J().kv("t", "bail").kv("next", c + 1).str());
            break;
        }
    }
    J j;
    j.kv("t", "summary").raw("ops", Counters{e.op_count}.json()).raw("counters", counters().json()).kv("steps", e.steps_total).kv("avoided", e.avoided);
    j.raw("prestate_op", jarr_str(std::vector<std::string>(e.prestate_op.begin(), e.prestate_op.end())));
    j.kv("objects_constructed", registry().constructed).kv("objects_destroyed", registry().destroyed).kv("alloc_events", ledger().alloc_events).kv("dealloc_events", ledger().dealloc_events);
    emit(j.str());
    return 0;
}
