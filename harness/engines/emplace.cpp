// emplace engine (C15): emplace_back stores T(source item) whatever form the source takes.
// Finite grid: type pair (stored <- source) x source form x parameter kind (FixedSize / VaryingSize) x length 0..5.
// Built per group of type pairs (-DVF_GROUP=n) as C++17 and C++20 (memory.hpp takes the std::ranges path there).
#include "vf/config.hpp"

#include <array>
#include <deque>
#include <list>
#include <vector>

using namespace vf;

#ifndef VF_GROUP
#define VF_GROUP 0
#endif

namespace
{
using Kd = Kind<false, false, false, false>;
using Alloc = LedgerAlloc<std::byte, Kd>;
template <class T>
using FVec = cntgs::BasicContiguousVector<cntgs::Options<cntgs::Allocator<Alloc>>, uint16_t, cntgs::FixedSize<T>>;
template <class T>
using VVec = cntgs::BasicContiguousVector<cntgs::Options<cntgs::Allocator<Alloc>>, uint32_t, cntgs::VaryingSize<T>, uint8_t>;

// ------------------------------------------------------------------------------------------------ value types of the grid
enum class EnumI : int
{
    A = 0,
    B = 7,
    C = 1000
};
enum EnumU : int
{
    U_A = 0,
    U_B = 7,
    U_C = 1000
};
struct WrapE  // converts to EnumI, not bytewise
{
    int v;
    operator EnumI() const { return static_cast<EnumI>(v + 1); }
};
struct Twice  // trivially copyable, but its converting constructor is not a bit copy
{
    int v;
    Twice(int x) : v(2 * x) {}
};
struct Triple  // conversion operator that is not a bit copy
{
    int v;
    operator int() const { return v * 3; }
};
static_assert(sizeof(WrapE) == sizeof(EnumI) && sizeof(Twice) == sizeof(int) && sizeof(Triple) == sizeof(int));

// sources whose conversion to a trivially copyable stored type depends on the value category: an rvalue source item
// must be converted as an rvalue (that is what "moved from" means for it), an lvalue source item as an lvalue
struct Lend
{
    int v = 0;
    int as_lvalue = 0, as_rvalue = 0;
    Lend() = default;
    explicit Lend(int x) : v(x) {}
    operator int() const&
    {
        ++const_cast<Lend*>(this)->as_lvalue;
        return v;
    }
    operator int() &&
    {
        ++as_rvalue;
        const int r = v;
        v = -1;
        return r;
    }
};
struct Giver
{
    int v = 0;
    mutable int copied_from = 0;
    int moved_from = 0;
    Giver() = default;
    explicit Giver(int x) : v(x) {}
};
struct Taker  // trivially copyable, constructible from Giver by copy or by move
{
    int v;
    Taker(const Giver& g) : v(g.v) { ++g.copied_from; }
    Taker(Giver&& g) : v(g.v)
    {
        ++g.moved_from;
        g.v = -1;
    }
};
static_assert(std::is_trivially_copyable_v<Taker>);
// trivial copy constructor but a user-provided move constructor: T(std::move(item)) is not a bit copy
struct CopyTrivMove
{
    int v = 0;
    int copied_from = 0;  // never changes: copying is trivial
    int moved_from = 0;
    char origin = 'V';  // 'V' value constructed / copied bitwise, 'M' move constructed
    CopyTrivMove() = default;
    explicit CopyTrivMove(int x) : v(x) {}
    CopyTrivMove(const CopyTrivMove&) = default;
    CopyTrivMove& operator=(const CopyTrivMove&) = default;
    CopyTrivMove(CopyTrivMove&& o) noexcept : v(o.v), origin('M')
    {
        ++o.moved_from;
        o.v = -1;
    }
};
static_assert(std::is_trivially_copy_constructible_v<CopyTrivMove> && !std::is_trivially_copyable_v<CopyTrivMove>);
template <class S>
inline constexpr bool IS_CATEGORY_SOURCE = std::is_same_v<S, Lend> || std::is_same_v<S, Giver> || std::is_same_v<S, CopyTrivMove>;

// key(): a comparable summary of a stored / expected value
template <class T>
long long key(const T& x)
{
    if constexpr (std::is_same_v<T, bool>)
    {
        unsigned char raw;
        std::memcpy(&raw, &x, 1);
        return raw;  // an invalid representation (not 0/1) shows up as a mismatch
    }
    else if constexpr (std::is_same_v<T, Twice> || std::is_same_v<T, Taker>)
        return x.v;
    else if constexpr (std::is_same_v<T, CopyTrivMove>)
        return x.v * 4 + (x.origin == 'M' ? 1 : 0);  // value and whether it was move constructed
    else if constexpr (std::is_same_v<T, EnumI>)
        return static_cast<long long>(x);
    else if constexpr (std::is_same_v<T, std::string>)
        return x.empty() ? -3 : static_cast<long long>(std::hash<std::string>{}(x) & 0xFFFFFFFFFFFF);
    else if constexpr (std::is_same_v<T, std::unique_ptr<int>>)
        return x ? *x : -1;
    else if constexpr (IsTracked<T>::value)
        return x.value("read of a stored object");
    else if constexpr (std::is_floating_point_v<T>)
        return static_cast<long long>(x * 16);
    else if constexpr (std::is_pointer_v<T>)
        return static_cast<long long>(reinterpret_cast<uintptr_t>(x));
    else
        return static_cast<long long>(x);
}

// source values: small, with fractions for floating sources, {0,1,2,255} for the bool target
template <class S>
S make_source(int i, int salt)
{
    const int v = (i * 7 + salt * 3 + 1) % 120;
    if constexpr (std::is_same_v<S, std::string>)
        return (i % 2 ? std::string(40, 'a' + char(i)) : std::string("s")) + std::to_string(v);
    else if constexpr (std::is_same_v<S, const char*>)
    {
        static const char* lits[] = {"zero", "one", "a much longer literal that does not fit the small buffer", "three", "four", "five", "six"};
        return lits[(i + salt) % 7];
    }
    else if constexpr (std::is_same_v<S, std::unique_ptr<int>>)
        return std::make_unique<int>(v);
    else if constexpr (std::is_pointer_v<S>)
        return reinterpret_cast<S>(static_cast<uintptr_t>(v) * 8);
    else if constexpr (IsTracked<S>::value)
        return S(v);
    else if constexpr (std::is_same_v<S, Lend>)
        return Lend(v);
    else if constexpr (std::is_same_v<S, Giver>)
        return Giver(v);
    else if constexpr (std::is_same_v<S, CopyTrivMove>)
        return CopyTrivMove(v);
    else if constexpr (std::is_same_v<S, WrapE>)
        return WrapE{v};
    else if constexpr (std::is_same_v<S, Triple>)
        return Triple{v};
    else if constexpr (std::is_same_v<S, EnumI>)
        return i % 3 == 0 ? EnumI::A : i % 3 == 1 ? EnumI::B : EnumI::C;
    else if constexpr (std::is_same_v<S, EnumU>)
        return i % 3 == 0 ? U_A : i % 3 == 1 ? U_B : U_C;
    else if constexpr (std::is_same_v<S, bool>)
        return (i + salt) % 2 == 0;
    else if constexpr (std::is_floating_point_v<S>)
        return static_cast<S>(v) + static_cast<S>(0.5);
    else if constexpr (std::is_same_v<S, uint8_t>)
    {
        static const uint8_t vals[] = {0, 1, 2, 255, 128, 3};
        return vals[(i + salt) % 6];
    }
    else
        return static_cast<S>(v * (i % 2 ? -1 : 1));  // negative values: int -> unsigned wraps, int64 -> int32 narrows
}

template <class T, class S>
long long expected_key(const S& s)
{
    if constexpr (std::is_same_v<S, std::unique_ptr<int>>)
        return s ? *s : -1;
    else if constexpr (IsTracked<S>::value)
        return s.value("read of a source object");
    else if constexpr (IS_CATEGORY_SOURCE<S>)
        return s.v;
    else
    {
        const T t = static_cast<T>(s);
        return key(t);
    }
}

template <class S>
long long source_key(const S& s)
{
    if constexpr (std::is_same_v<S, const char*>)
        return reinterpret_cast<long long>(s);
    else if constexpr (std::is_same_v<S, WrapE> || std::is_same_v<S, Triple>)
        return s.v;
    else if constexpr (std::is_same_v<S, Lend>)
        return (static_cast<long long>(s.v) + 1) * 10000 + s.as_lvalue * 100 + s.as_rvalue;
    else if constexpr (std::is_same_v<S, Giver>)
        return (static_cast<long long>(s.v) + 1) * 10000 + s.copied_from * 100 + s.moved_from;
    else if constexpr (std::is_same_v<S, CopyTrivMove>)
        return (static_cast<long long>(s.v) + 1) * 10000 + 0 * 100 + s.moved_from;
    else
        return key(s);
}

// ------------------------------------------------------------------------------------------------ counting input range
struct Counts
{
    int derefs = 0;
    int incs = 0;
};

template <class S>
struct GenIt
{
    using iterator_category = std::input_iterator_tag;
    using value_type = S;
    using difference_type = std::ptrdiff_t;
    using pointer = const S*;
    using reference = S;
    int i = 0;
    int salt = 0;
    Counts* c = nullptr;
    S operator*() const
    {
        if (c) ++c->derefs;
        return make_source<S>(i, salt);
    }
    GenIt& operator++()
    {
        if (c) ++c->incs;
        ++i;
        return *this;
    }
    GenIt operator++(int)
    {
        auto t = *this;
        ++*this;
        return t;
    }
    friend bool operator==(const GenIt& a, const GenIt& b) { return a.i == b.i; }
    friend bool operator!=(const GenIt& a, const GenIt& b) { return a.i != b.i; }
};

template <class S>
struct GenRange
{
    int n;
    int salt;
    Counts* c;
    GenIt<S> begin() const { return GenIt<S>{0, salt, c}; }
    GenIt<S> end() const { return GenIt<S>{n, salt, nullptr}; }
};

// A single-pass range in the manner of a stream / generator view: begin() starts THE pass and already takes the first item
// from the shared source, every increment takes the next one. Calling begin() a second time loses an item.
struct PullState
{
    int n = 0;
    int salt = 0;
    int next = 0;    // items taken from the source so far
    int begins = 0;  // informational
    Counts* c = nullptr;
};

template <class S>
struct PullIt
{
    using iterator_category = std::input_iterator_tag;
    using value_type = S;
    using difference_type = std::ptrdiff_t;
    using pointer = const S*;
    using reference = S;
    PullState* st = nullptr;
    int i = -1;  // -1: exhausted
    S operator*() const
    {
        if (st->c) ++st->c->derefs;
        return make_source<S>(i, st->salt);
    }
    PullIt& operator++()
    {
        if (st->c && i >= 0) ++st->c->incs;
        i = st->next < st->n ? st->next++ : -1;
        return *this;
    }
    PullIt operator++(int)
    {
        auto t = *this;
        ++*this;
        return t;
    }
    friend bool operator==(const PullIt& a, const PullIt& b) { return a.i == b.i; }
    friend bool operator!=(const PullIt& a, const PullIt& b) { return a.i != b.i; }
};

template <class S>
struct PullRange
{
    PullState* st;
    PullIt<S> begin() const
    {
        ++st->begins;
        PullIt<S> it{st, -1};
        it.i = st->next < st->n ? st->next++ : -1;
        return it;
    }
    PullIt<S> end() const { return PullIt<S>{st, -1}; }
};

enum Form
{
    F_ARRAY_LVALUE,
    F_ARRAY_RVALUE,
    F_VECTOR_LVALUE,
    F_VECTOR_RVALUE,
    F_CARRAY_LVALUE,
    F_LIST_LVALUE,
    F_LIST_RVALUE,
    F_GENERATED_RANGE,
    F_POINTER,
    F_CONTIGUOUS_ITERATOR,
    F_LIST_ITERATOR,
    F_MOVE_ITERATOR,
    F_INPUT_ITERATOR,
    F_REVERSE_ITERATOR,
    F_DEQUE_ITERATOR,
    F_SINGLE_PASS_RANGE,
    F_COUNT
};
const char* FORM_NAME[F_COUNT] = {"std::array&", "std::array&&", "std::vector&", "std::vector&&", "C array&", "std::list&", "std::list&&", "generated input range", "pointer",
                                  "vector::iterator", "list::iterator", "move_iterator", "counting input iterator", "reverse_iterator", "deque::iterator", "single-pass range (begin() starts the pass)"};

struct Stats
{
    uint64_t cells = 0, items = 0;
    std::map<std::string, uint64_t> by_form;
    std::vector<std::string> samples;
    std::set<std::string> distinct;
} stats;

int64_t g_case = 0, g_from = 0, g_to = INT64_MAX;
bool g_bailed = false;

template <class V, bool FIXED>
V make_vec(size_t n_items, size_t sizeof_t)
{
    typename V::allocator_type alloc{1};
    if constexpr (FIXED)
        return V(2, std::array<size_t, 1>{n_items}, alloc);
    else
        return V(2, n_items * sizeof_t + 8, alloc);
}

// one cell: stored type T, source type S, form, parameter kind, length n
template <class T, class S, int FORM, bool FIXED>
void cell(const char* pair_name, int n)
{
    constexpr bool COPYABLE_S = std::is_copy_constructible_v<S>;
    constexpr bool RVALUE_FORM = FORM == F_ARRAY_RVALUE || FORM == F_VECTOR_RVALUE || FORM == F_LIST_RVALUE || FORM == F_MOVE_ITERATOR;
    constexpr bool ITERATOR_FORM = FORM == F_POINTER || FORM == F_CONTIGUOUS_ITERATOR || FORM == F_LIST_ITERATOR || FORM == F_MOVE_ITERATOR || FORM == F_INPUT_ITERATOR ||
                                   FORM == F_REVERSE_ITERATOR || FORM == F_DEQUE_ITERATOR;
    constexpr bool GENERATED = FORM == F_GENERATED_RANGE || FORM == F_INPUT_ITERATOR || FORM == F_SINGLE_PASS_RANGE;
    // which cells exist
    if constexpr (!FIXED && ITERATOR_FORM)
        return;  // a VaryingSize parameter takes a range (its length is the size)
    else if constexpr (!COPYABLE_S && !RVALUE_FORM)
        return;  // move-only sources need an rvalue form
    else if constexpr (GENERATED && (!COPYABLE_S || IsTracked<S>::value || IS_CATEGORY_SOURCE<S>))
        return;
    else if constexpr ((FORM == F_ARRAY_LVALUE || FORM == F_ARRAY_RVALUE || FORM == F_CARRAY_LVALUE) && !std::is_default_constructible_v<S>)
        return;  // fixed-extent containers are filled by assignment below
    else if constexpr (FORM == F_DEQUE_ITERATOR && (!std::is_copy_assignable_v<S> || IsTracked<S>::value))
        return;
    else
    {
        const int salt = FORM + (FIXED ? 0 : 5);
        const std::string name = fmt("%s | %s | %s | n=%d", pair_name, FORM_NAME[FORM], FIXED ? "FixedSize" : "VaryingSize", n);
        const int64_t cno = g_case++;
        if (cno < g_from || cno >= g_to || g_bailed) return;
        emit(J().kv("t", "case_begin").kv("case", cno).str());
        arm_case_watchdog(40);
        out().viol_in_case = 0;
        set_ctx(cno, 0, "emplace_back", FIXED ? "FixedSize" : "VaryingSize", "C15,C02,C06", name.c_str());
        ledger().junk = static_cast<int>(cno % 4);
        using V = std::conditional_t<FIXED, FVec<T>, VVec<T>>;
        const auto un = static_cast<size_t>(n);
        // expected values and a pristine copy of the source values, made before the call
        std::vector<long long> expected, src_before;
        for (int i = 0; i < n; ++i)
        {
            const S s = make_source<S>(i, salt);
            if constexpr (std::is_same_v<T, CopyTrivMove>)
                expected.push_back(static_cast<long long>(s.v) * 4 + (RVALUE_FORM ? 1 : 0));  // moved in from rvalue sources, copied otherwise
            else
                expected.push_back(expected_key<T, S>(s));
            src_before.push_back(source_key(s));
        }
        std::vector<long long> src_after;
        Counts counts;
        const uint64_t moves0 = registry().move_constructed, copies0 = registry().copy_constructed;
        uint64_t moves_mid = 0, copies_mid = 0;
        {
            V v = make_vec<V, FIXED>(un, sizeof(T));
            auto emplace = [&](auto&& src)
            {
                moves_mid = registry().move_constructed;
                copies_mid = registry().copy_constructed;
                if constexpr (FIXED)
                    v.emplace_back(uint16_t{7}, std::forward<decltype(src)>(src));
                else
                    v.emplace_back(static_cast<uint32_t>(n), std::forward<decltype(src)>(src), uint8_t{9});
                moves_mid = registry().move_constructed - moves_mid;
                copies_mid = registry().copy_constructed - copies_mid;
            };
            auto normalize = [](auto& container)
            {
                // source items were moved into their container: forget that (only what emplace_back does counts)
                if constexpr (std::is_same_v<S, CopyTrivMove>)
                    for (auto& x : container) x.origin = 'V';
                (void)container;
            };
            auto fill = [&](auto& container)
            {
                for (int i = 0; i < n; ++i) container.push_back(make_source<S>(i, salt));
                normalize(container);
            };
            auto keys_of = [&](auto& container)
            {
                for (auto& x : container) src_after.push_back(source_key(x));
            };
            if constexpr (FORM == F_VECTOR_LVALUE || FORM == F_VECTOR_RVALUE || FORM == F_POINTER || FORM == F_CONTIGUOUS_ITERATOR || FORM == F_MOVE_ITERATOR)
            {
                std::vector<S> c;
                c.reserve(un + 1);
                fill(c);
                if constexpr (FORM == F_VECTOR_LVALUE) emplace(c);
                else if constexpr (FORM == F_VECTOR_RVALUE) emplace(std::move(c));
                else if constexpr (FORM == F_POINTER) emplace(static_cast<const S*>(c.data()));
                else if constexpr (FORM == F_CONTIGUOUS_ITERATOR) emplace(c.begin());
                else emplace(std::make_move_iterator(c.begin()));
                keys_of(c);
            }
            else if constexpr (FORM == F_REVERSE_ITERATOR)
            {
                // random access, not contiguous in iteration order: items must come out in reverse
                std::vector<S> c;
                c.reserve(un + 1);
                for (int i = n - 1; i >= 0; --i) c.push_back(make_source<S>(i, salt));
                normalize(c);
                emplace(c.rbegin());
                for (auto it = c.rbegin(); it != c.rend(); ++it) src_after.push_back(source_key(*it));
            }
            else if constexpr (FORM == F_DEQUE_ITERATOR)
            {
                // random access over several blocks
                std::deque<S> c;
                for (int i = 0; i < 1536; ++i) c.push_back(make_source<S>(0, salt));  // 1536 is a multiple of every block length: the window straddles a block boundary
                for (int i = 0; i < 1536 - (n + 1) / 2; ++i) c.pop_front();
                for (int i = 0; i < (n + 1) / 2; ++i) c[static_cast<size_t>(i)] = make_source<S>(i, salt);
                for (int i = (n + 1) / 2; i < n; ++i) c.push_back(make_source<S>(i, salt));
                normalize(c);
                emplace(c.begin());
                for (int i = 0; i < n; ++i) src_after.push_back(source_key(c[static_cast<size_t>(i)]));
            }
            else if constexpr (FORM == F_LIST_LVALUE || FORM == F_LIST_RVALUE || FORM == F_LIST_ITERATOR)
            {
                std::list<S> c;
                fill(c);
                if constexpr (FORM == F_LIST_LVALUE) emplace(c);
                else if constexpr (FORM == F_LIST_RVALUE) emplace(std::move(c));
                else emplace(c.begin());
                keys_of(c);
            }
            else if constexpr (FORM == F_ARRAY_LVALUE || FORM == F_ARRAY_RVALUE || FORM == F_CARRAY_LVALUE)
            {
                // fixed-extent containers: one instantiation per length
                auto with_extent = [&](auto N)
                {
                    constexpr size_t E = decltype(N)::value;
                    if constexpr (FORM == F_CARRAY_LVALUE)
                    {
                        if constexpr (E == 0)
                            return;  // no zero-length C arrays
                        else
                        {
                            S c[E]{};
                            for (size_t i = 0; i < E; ++i) c[i] = make_source<S>(static_cast<int>(i), salt);
                            emplace(c);
                            for (auto& x : c) src_after.push_back(source_key(x));
                        }
                    }
                    else
                    {
                        std::array<S, E> c{};
                        for (size_t i = 0; i < E; ++i) c[i] = make_source<S>(static_cast<int>(i), salt);
                        if constexpr (FORM == F_ARRAY_LVALUE) emplace(c);
                        else emplace(std::move(c));
                        for (auto& x : c) src_after.push_back(source_key(x));
                    }
                };
                switch (n)
                {
                    case 0: with_extent(std::integral_constant<size_t, 0>{}); break;
                    case 1: with_extent(std::integral_constant<size_t, 1>{}); break;
                    case 2: with_extent(std::integral_constant<size_t, 2>{}); break;
                    case 3: with_extent(std::integral_constant<size_t, 3>{}); break;
                    case 4: with_extent(std::integral_constant<size_t, 4>{}); break;
                    default: with_extent(std::integral_constant<size_t, 5>{}); break;
                }
                if (FORM == F_CARRAY_LVALUE && n == 0)
                {
                    emit(J().kv("t", "case_end").kv("case", cno).kv("steps", 0).kv("viol", 0).kv("hash", name).raw("nt", "{\"C15\":0}").str());
                    return;
                }
            }
            else if constexpr (FORM == F_GENERATED_RANGE)
            {
                GenRange<S> r{n, salt, &counts};
                emplace(r);
            }
            else if constexpr (FORM == F_INPUT_ITERATOR)
            {
                emplace(GenIt<S>{0, salt, &counts});
            }
            else if constexpr (FORM == F_SINGLE_PASS_RANGE)
            {
                PullState st{n, salt, 0, 0, &counts};
                PullRange<S> r{&st};
                emplace(r);
                if (st.next != n) violation("C15", "items_consumed", fmt("%s: %d items were taken from the single-pass source, the parameter holds %d", name.c_str(), st.next, n));
            }
            // ---- stored values
            std::vector<long long> got;
            {
                auto ref = v[0];
                auto&& span = cntgs::get<(FIXED ? 1 : 1)>(ref);
                if (span.size() != un) violation("C15,C04", "stored_count", fmt("%s: span holds %zu objects", name.c_str(), span.size()));
                for (auto& x : span) got.push_back(key(x));
                if (FIXED && cntgs::get<0>(ref) != 7) violation("C15", "neighbour_clobbered", fmt("%s: the plain parameter in front of the span was overwritten", name.c_str()));
                if constexpr (!FIXED)
                {
                    if (cntgs::get<2>(ref) != 9) violation("C15", "neighbour_clobbered", fmt("%s: the plain parameter behind the span was overwritten", name.c_str()));
                }
            }
            if (got != expected)
                violation("C15", "stored_value", fmt("%s: stored %s, T(source item) is %s", name.c_str(), jarr_num(got).c_str(), jarr_num(expected).c_str()));
            // ---- state of the source
            if (!GENERATED)
            {
                if (!RVALUE_FORM && IS_CATEGORY_SOURCE<S>)
                {
                    for (size_t i = 0; i < src_after.size(); ++i)
                        if (src_after[i] != src_before[i] + (std::is_same_v<S, CopyTrivMove> ? 0 : 100))
                            violation("C15", "lvalue_source_modified", fmt("%s: lvalue source item %zu: value / lvalue conversions / rvalue conversions changed from %lld to %lld (expected exactly one lvalue conversion)", name.c_str(), i, src_before[i], src_after[i]));
                }
                else if (!RVALUE_FORM)
                {
                    if (src_after != src_before) violation("C15", "lvalue_source_modified", fmt("%s: source is %s after the call, was %s", name.c_str(), jarr_num(src_after).c_str(), jarr_num(src_before).c_str()));
                }
                else if constexpr (IsTracked<S>::value)
                {
                    // moved from exactly once per item, never copied
                    for (auto k : src_after)
                        if (k != MOVED) violation("C15", "rvalue_source_not_moved", fmt("%s: a source item still holds %lld", name.c_str(), k));
                    if (moves_mid != un || copies_mid != 0)
                        violation("C15", "move_count", fmt("%s: %" PRIu64 " move and %" PRIu64 " copy constructions for %d items", name.c_str(), moves_mid, copies_mid, n));
                }
                else if constexpr (IS_CATEGORY_SOURCE<S>)
                {
                    // every item converted exactly once, as an rvalue: key == (moved-from value -1 + 1) * 10000 + 0 * 100 + 1
                    for (auto k : src_after)
                        if (k != 1) violation("C15", "rvalue_source_not_moved", fmt("%s: a source item was converted %lld times as lvalue and %lld times as rvalue (value afterwards %lld)", name.c_str(), (k / 100) % 100, k % 100, k / 10000 - 1));
                }
                else if constexpr (std::is_same_v<S, std::unique_ptr<int>>)
                {
                    for (auto k : src_after)
                        if (k != -1) violation("C15", "rvalue_source_not_moved", fmt("%s: a source unique_ptr still owns %lld", name.c_str(), k));
                }
                if constexpr (IsTracked<S>::value && !RVALUE_FORM)
                {
                    if (copies_mid != un || moves_mid != 0)
                        violation("C15", "copy_count", fmt("%s: %" PRIu64 " copy and %" PRIu64 " move constructions for %d items", name.c_str(), copies_mid, moves_mid, n));
                }
            }
            else
            {
                // exactly as many items are consumed as the parameter holds
                if (counts.derefs != n) violation("C15", "items_consumed", fmt("%s: %d items were read from the source, the parameter holds %d", name.c_str(), counts.derefs, n));
                if (counts.incs > n || counts.incs < n - 1) violation("C15", "items_consumed", fmt("%s: the source iterator was advanced %d times for %d items", name.c_str(), counts.incs, n));
            }
            ledger().check_all_canaries();
        }
        (void)moves0;
        (void)copies0;
        if (ledger().live_count() != 0) violation("C07", "block_leaked", fmt("%s: %zu blocks left", name.c_str(), ledger().live_count()));
        if (!registry().live.empty()) violation("C06", "objects_never_destroyed", fmt("%s: %zu instrumented objects left", name.c_str(), registry().live.size()));
        registry().reset();
        if (out().viol_in_case == 0) ledger().reset(); else ledger().blocks.clear();
        ++stats.cells;
        stats.items += un;
        ++stats.by_form[FORM_NAME[FORM]];
        J j;
        j.kv("t", "case_end").kv("case", cno).kv("steps", 1).kv("viol", out().viol_in_case).kv("hash", name).raw("nt", n > 0 ? "{\"C15\":1}" : "{\"C15\":0}");
        if (stats.samples.size() < 3 && n == 3)
        {
            stats.samples.push_back(name);
            j.raw("trace", jarr_str({name, "source " + jarr_num(src_before), "expected stored " + jarr_num(expected)}));
        }
        emit(j.str());
        if (out().viol_in_case != 0)
        {
            emit(J().kv("t", "bail").kv("next", cno + 1).str());
            g_bailed = true;
        }
    }
}

template <class T, class S, int FORM>
void forms_lengths(const char* pair_name)
{
    for (int n = 0; n <= 5; ++n)
    {
        cell<T, S, FORM, true>(pair_name, n);
        cell<T, S, FORM, false>(pair_name, n);
    }
}

template <class T, class S, int... FORMS>
void all_forms_impl(const char* pair_name, std::integer_sequence<int, FORMS...>)
{
    (forms_lengths<T, S, FORMS>(pair_name), ...);
}

template <class T, class S>
void pair(const char* pair_name)
{
    all_forms_impl<T, S>(pair_name, std::make_integer_sequence<int, F_COUNT>{});
}
}  // namespace

int main(int argc, char** argv)
{
    Args args(argc, argv);
    open_out(args);
    ledger().release_hook = registry_release_hook;
    g_from = args.num("from", 0);
    g_to = args.num("to", INT64_MAX);
    emit(J().kv("t", "hello").kv("engine", "emplace").kv("group", VF_GROUP).kv("cplusplus", static_cast<int64_t>(__cplusplus)).str());
#if VF_GROUP == 0
    pair<int, int>("int <- int");
    pair<unsigned, int>("unsigned <- int");
    pair<int32_t, int16_t>("int32 <- int16");
    pair<int32_t, int64_t>("int32 <- int64");
    pair<uint8_t, uint8_t>("uint8 <- uint8");
#elif VF_GROUP == 1
    pair<float, int>("float <- int");
    pair<int, float>("int <- float");
    pair<double, float>("double <- float");
    pair<bool, uint8_t>("bool <- uint8");
    pair<char, signed char>("char <- signed char");
#elif VF_GROUP == 2
    pair<int, EnumU>("int <- unscoped enum");
    pair<EnumI, WrapE>("enum class <- class with conversion operator");
    pair<Twice, int>("class with converting constructor <- int");
    pair<int, Triple>("int <- class with conversion operator");
    pair<EnumI, EnumI>("enum class <- enum class");
#elif VF_GROUP == 3
    pair<std::string, const char*>("std::string <- const char*");
    pair<std::string, std::string>("std::string <- std::string");
    pair<int*, int*>("int* <- int*");
    pair<const int*, int*>("const int* <- int*");
    pair<SecondBase*, Derived*>("pointer to a base at non-zero offset <- pointer to derived");
#elif VF_GROUP == 5
    pair<int, Lend>("int <- class with ref-qualified conversion operators");
    pair<Taker, Giver>("trivially copyable class <- class (copy or move converting constructor)");
    pair<long long, Lend>("long long <- class with ref-qualified conversion operators");
    pair<CopyTrivMove, CopyTrivMove>("class with trivial copy but user-provided move constructor <- same");
#elif VF_GROUP == 4
    pair<Tracked<8>, Tracked<8>>("Tracked <- Tracked");
    pair<std::unique_ptr<int>, std::unique_ptr<int>>("unique_ptr <- unique_ptr");
    pair<Tracked<8, false>, Tracked<8, false>>("move-only Tracked <- move-only Tracked");
#endif
    Counters cn;
    cn.add("cells", stats.cells);
    cn.add("items", stats.items);
    for (auto& [k, v] : stats.by_form) cn.add(std::string("form:") + k, v);
    emit(J().kv("t", "summary").raw("ops", cn.json()).raw("counters", counters().json()).kv("steps", stats.cells).kv("avoided", 0).raw("prestate_op", "[]").kv("objects_constructed", registry().constructed).kv("objects_destroyed", registry().destroyed).kv("alloc_events", ledger().alloc_events).kv("dealloc_events", ledger().dealloc_events).str());
    return 0;
}
