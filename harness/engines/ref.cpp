// ref engine (C11): references and iterators as proxies. Per case one vector of elements with equal field sizes and a
// model; random sequences of writes through one access path cross-read through all others, reference
// assignment / move / swap / iter_swap, permuting algorithms against the same algorithm on the model, and iterator
// arithmetic against index arithmetic for all index pairs.
#include "vf/vecmon.hpp"

#include <algorithm>

using namespace vf;

namespace
{
// structured bindings need a literal number of names
template <class R, size_t... I>
auto typed_tuple_helper(std::index_sequence<I...>) -> std::tuple<std::tuple_element_t<I, R>...>;

// tuple with exactly the types the bindings have: T& for plain parameters, Span<T> (by value) for spans
template <class R>
using BindingTuple = decltype(typed_tuple_helper<R>(std::make_index_sequence<std::tuple_size<R>::value>{}));

template <class R>
auto bind_tuple(R&& r)
{
    using RT = std::remove_reference_t<R>;
    using Tup = BindingTuple<RT>;
    constexpr size_t N = std::tuple_size<std::decay_t<R>>::value;
    if constexpr (N == 1)
    {
        auto&& [a] = r;
        return Tup(a);
    }
    else if constexpr (N == 2)
    {
        auto&& [a, b] = r;
        return Tup(a, b);
    }
    else if constexpr (N == 3)
    {
        auto&& [a, b, c] = r;
        return Tup(a, b, c);
    }
    else if constexpr (N == 4)
    {
        auto&& [a, b, c, d] = r;
        return Tup(a, b, c, d);
    }
    else if constexpr (N == 5)
    {
        auto&& [a, b, c, d, e] = r;
        return Tup(a, b, c, d, e);
    }
    else if constexpr (N == 6)
    {
        auto&& [a, b, c, d, e, f] = r;
        return Tup(a, b, c, d, e, f);
    }
    else
    {
        static_assert(N == 7, "extend bind_tuple");
        auto&& [a, b, c, d, e, f, g] = r;
        return Tup(a, b, c, d, e, f, g);
    }
}

template <class Cfg, class K>
struct Engine
{
    using Alloc = LedgerAlloc<std::byte, K>;
    using Vec = typename Cfg::template Vec<Alloc>;
    using G = Glue<Cfg>;
    using Mon = VecMon<Cfg, Vec>;
    static constexpr size_t NF = Cfg::NF;

    Rng rng{1};
    std::optional<Vec> v;
    MVec m;
    uint64_t next_id = 1;
    int64_t case_no = 0;
    int step = 0;
    std::vector<std::string> trace;
    uint64_t hash = 0;
    std::map<std::string, uint64_t> op_count;
    uint64_t cross_reads = 0, arithmetic_pairs = 0;
    bool nontrivial = false;
    std::string cur;

    void begin(const char* op, const std::string& args)
    {
        cur = op;
        set_ctx(case_no, step, op, "vector", "C11,C02,C06", args.c_str());
        ++op_count[op];
        const std::string line = std::string(op) + "(" + args + ")";
        hash = mix(hash, std::hash<std::string>{}(line));
        if (trace.size() < 48) trace.push_back(line);
        if (out().verbose) emit(J().kv("t", "op").kv("case", case_no).kv("step", step).kv("op", line).str());
    }
    void viol(const char* kind, const std::string& d) { violation("C11", kind, d, cur.c_str(), "vector"); }

    // read an element through structured bindings
    template <class R>
    MElem read_bindings(R&& r)
    {
        MElem e;
        e.f.resize(NF);
        auto t = bind_tuple(r);
        for_each_index<NF>(
            [&](auto I)
            {
                using Dc = typename Cfg::template DescAt<I>;
                using T = typename Dc::Type;
                auto&& x = std::get<I>(t);
                if constexpr (Dc::KIND == 'F' || Dc::KIND == 'V')
                {
                    for (auto& it : x) e.f[I].push_back(Codec<T>::read(it));
                }
                else
                    e.f[I].push_back(Codec<T>::read(x));
            });
        return e;
    }

    template <class R>
    void write_bindings(R&& r, size_t field, size_t item, int64_t value)
    {
        auto t = bind_tuple(r);
        for_each_index<NF>(
            [&](auto I)
            {
                if (I != field) return;
                using Dc = typename Cfg::template DescAt<I>;
                using T = typename Dc::Type;
                auto&& x = std::get<I>(t);
                if constexpr (Dc::KIND == 'F' || Dc::KIND == 'V')
                    x[item] = Codec<T>::make(value);
                else if constexpr (Dc::KIND == 'P')
                    x = Codec<T>::make(value);
            });
    }

    // const access paths are read-only: what get<I> hands out for a const_reference / const vector cannot be written through
    void check_read_only()
    {
        bool writable = false;
        for_each_index<NF>(
            [&](auto I)
            {
                using Dc = typename Cfg::template DescAt<I>;
                using T = typename Dc::Type;
                using CR = decltype(cntgs::get<I>(std::declval<const typename Vec::const_reference&>()));
                using CE = decltype(cntgs::get<I>(std::declval<const typename Vec::value_type&>()));
                if constexpr (Dc::KIND == 'F' || Dc::KIND == 'V')
                {
                    if (!std::is_const_v<typename std::decay_t<CR>::element_type> || !std::is_const_v<typename std::decay_t<CE>::element_type>) writable = true;
                }
                else
                {
                    if (!std::is_const_v<std::remove_reference_t<CR>> || !std::is_const_v<std::remove_reference_t<CE>>) writable = true;
                }
                (void)sizeof(T);
            });
        using CIt = typename Vec::const_iterator;
        if (!std::is_same_v<decltype(*std::declval<CIt>()), typename Vec::const_reference>) writable = true;
        if (!std::is_same_v<decltype(std::declval<const Vec&>()[0]), typename Vec::const_reference>) writable = true;
        if (writable) viol("const_access_writable", "a const access path (const_reference, const element, const_iterator, const operator[]) hands out writable access");
    }

    void cross_read(const char* after)
    {
        Vec& vec = *v;
        const Vec& cv = vec;
        const size_t n = m.e.size();
        if (cv.size() != n)
        {
            viol("size_changed", fmt("after %s: size() == %zu, expected %zu", after, cv.size(), n));
            return;
        }
        auto it = vec.begin();
        auto cit = cv.begin();
        auto ccit = vec.cbegin();
        for (size_t i = 0; i < n; ++i, ++it, ++cit)
        {
            const MElem& want = m.e[i];
            struct P
            {
                const char* name;
                MElem got;
            };
            std::vector<P> paths;
            paths.push_back({"const operator[]", G::read(cv[i])});
            paths.push_back({"operator[]", G::read(vec[i])});
            paths.push_back({"*iterator", G::read(*it)});
            paths.push_back({"*const_iterator", G::read(*cit)});
            paths.push_back({"cbegin()[i]", G::read(ccit[static_cast<std::ptrdiff_t>(i)])});
            paths.push_back({"begin()[i]", G::read(vec.begin()[static_cast<std::ptrdiff_t>(i)])});
            paths.push_back({"*(end() - (n - i))", G::read(*(vec.end() - static_cast<std::ptrdiff_t>(n - i)))});
            paths.push_back({"iterator->", G::read(*(vec.begin() + static_cast<std::ptrdiff_t>(i)).operator->().operator->())});
            paths.push_back({"structured bindings of a reference", read_bindings(vec[i])});
            paths.push_back({"structured bindings of a const_reference", read_bindings(cv[i])});
            {
                typename Vec::reference r = vec[i];
                typename Vec::const_reference cr = r;
                paths.push_back({"reference converted to const_reference", G::read(cr)});
                typename Vec::reference r2 = r;
                paths.push_back({"copy of a reference", G::read(r2)});
            }
            if (i == 0)
            {
                paths.push_back({"front()", G::read(vec.front())});
                paths.push_back({"const front()", G::read(cv.front())});
            }
            if (i + 1 == n)
            {
                paths.push_back({"back()", G::read(vec.back())});
                paths.push_back({"const back()", G::read(cv.back())});
            }
            for (auto& p : paths)
            {
                ++cross_reads;
                if (!elem_match(want, p.got))
                {
                    viol("access_path_mismatch", fmt("after %s: element %zu read through %s is %s, expected %s", after, i, p.name, elem_str(p.got).c_str(), elem_str(want).c_str()));
                    return;
                }
            }
        }
        if (!(it == vec.end()) || !(cit == cv.end())) viol("iteration_length", fmt("after %s: begin() + size() != end()", after));
        registry().sweep();
        ledger().check_all_canaries();
    }

    std::pair<size_t, size_t> pick_item(size_t idx)
    {
        std::vector<std::pair<size_t, size_t>> cand;
        for (size_t k = 0; k < NF; ++k)
            if (Cfg::fields()[k].kind != 'C')
                for (size_t t = 0; t < m.e[idx].f[k].size(); ++t) cand.emplace_back(k, t);
        if (cand.empty()) return {SIZE_MAX, 0};
        return cand[rng.below(cand.size())];
    }

    void op_write()
    {
        const size_t n = m.e.size();
        const size_t idx = static_cast<size_t>(rng.below(n));
        auto [k, t] = pick_item(idx);
        if (k == SIZE_MAX) return;
        const int64_t raw = static_cast<int64_t>(next_id++ * 64 + k * 8 + 5);
        int path = static_cast<int>(rng.below(8));
        if (path == 3 && idx != 0 && idx + 1 != n) path = 0;
        static const char* names[] = {"operator[]", "*iterator", "iterator[n]", "front()/back()", "copy of a reference", "structured bindings", "iterator->", "*(end()-k)"};
        begin("write", fmt("path=%s,idx=%zu,field=%zu,item=%zu,value=%" PRId64, names[path], idx, k, t, raw));
        Vec& vec = *v;
        const auto d = static_cast<std::ptrdiff_t>(idx);
        switch (path)
        {
            case 0: G::set_item(vec[idx], k, t, raw); break;
            case 1: G::set_item(*(vec.begin() + d), k, t, raw); break;
            case 2: G::set_item(vec.begin()[d], k, t, raw); break;
            case 3: G::set_item(idx == 0 ? vec.front() : vec.back(), k, t, raw); break;
            case 4:
            {
                auto r = vec[idx];
                auto r2 = r;
                G::set_item(r2, k, t, raw);
                break;
            }
            case 5: write_bindings(vec[idx], k, t, raw); break;
            case 6: G::set_item(*(vec.begin() + d).operator->().operator->(), k, t, raw); break;
            default: G::set_item(*(vec.end() - static_cast<std::ptrdiff_t>(n - idx)), k, t, raw); break;
        }
        m.e[idx].f[k][t] = G::project_field(k, raw);
        cross_read("write");
    }

    MElem moved_from(const MElem& e)
    {
        MElem r = e;
        for (size_t k = 0; k < NF; ++k)
            for (auto& x : r.f[k]) x = G::moved_value(k, x);
        return r;
    }

    void op_assign()
    {
        const size_t n = m.e.size();
        const size_t i = static_cast<size_t>(rng.below(n));
        size_t j = static_cast<size_t>(rng.below(n));
        Vec& vec = *v;
        int form = static_cast<int>(rng.below(5));
        if (!Cfg::ALL_COPY_ASSIGNABLE) form = 3 + form % 2;
        if (form >= 3 && i == j) j = (j + 1) % n;
        if (form >= 3 && i == j) return;
        static const char* names[] = {"ref = lvalue ref", "ref = const_ref", "ref = const lvalue ref", "ref = std::move(ref)", "ref = prvalue ref"};
        begin("assign", fmt("form=%s,target=%zu,source=%zu", names[form], i, j));
        // a copy assignment between two different elements runs the copy assignment of every object whose type has one of its own
        const uint64_t cnt_before = Cnt8::copies();
        const size_t cnt_expect = (form < 3 && i != j) ? objects_of_type(Cfg::fields(), m.e[j].f, "Cnt8") : 0;
        if constexpr (Cfg::ALL_COPY_ASSIGNABLE)
        {
            if (form == 0)
            {
                auto src = vec[j];
                vec[i] = src;
            }
            else if (form == 1)
                vec[i] = std::as_const(vec)[j];
            else if (form == 2)
            {
                const typename Vec::reference src = vec[j];
                auto dst = vec[i];
                dst = src;
            }
        }
        if (form == 3)
        {
            auto src = vec[j];
            vec[i] = std::move(src);
        }
        else if (form == 4)
            vec[i] = vec[j];
        if (Cnt8::copies() - cnt_before < cnt_expect)
            viol("copy_bypasses_copy_operations", fmt("%s had to copy-assign %zu objects of a type with user-provided copy / trivial move assignment, its copy operations ran %" PRIu64 " times", names[form], cnt_expect, Cnt8::copies() - cnt_before));
        m.e[i].f = m.e[j].f;
        if (form >= 3) m.e[j] = moved_from(m.e[j]);
        cross_read(names[form]);
    }

    void op_swap()
    {
        const size_t n = m.e.size();
        const size_t i = static_cast<size_t>(rng.below(n)), j = static_cast<size_t>(rng.below(n));
        const int form = static_cast<int>(rng.below(3));
        static const char* names[] = {"swap(ref, ref)", "iter_swap", "swap(named refs)"};
        begin("swap", fmt("form=%s,%zu,%zu", names[form], i, j));
        Vec& vec = *v;
        using std::swap;
        if (form == 0)
            swap(vec[i], vec[j]);
        else if (form == 1)
            std::iter_swap(vec.begin() + static_cast<std::ptrdiff_t>(i), vec.begin() + static_cast<std::ptrdiff_t>(j));
        else
        {
            // named references: the library's swap takes const references (an unqualified call with non-const lvalues would
            // select std::swap, which cannot work for a proxy type)
            auto a = vec[i];
            auto b = vec[j];
            swap(std::as_const(a), std::as_const(b));
        }
        std::swap(m.e[i].f, m.e[j].f);
        cross_read(names[form]);
    }

    void op_algorithm()
    {
        const size_t n = m.e.size();
        Vec& vec = *v;
        const int alg = static_cast<int>(rng.below(3));
        size_t a = static_cast<size_t>(rng.below(n + 1)), b = static_cast<size_t>(rng.below(n + 1)), c = static_cast<size_t>(rng.below(n + 1));
        size_t s3[3] = {a, b, c};
        std::sort(s3, s3 + 3);
        a = s3[0];
        b = s3[1];
        c = s3[2];
        auto B = [&](size_t i) { return vec.begin() + static_cast<std::ptrdiff_t>(i); };
        auto MB = [&](size_t i) { return m.e.begin() + static_cast<std::ptrdiff_t>(i); };
        // the model permutes contents only; ids stay with the positions (they are not observable)
        std::vector<std::vector<std::vector<int64_t>>> contents;
        for (auto& e : m.e) contents.push_back(e.f);
        auto CB = [&](size_t i) { return contents.begin() + static_cast<std::ptrdiff_t>(i); };
        (void)MB;
        if (alg == 0)
        {
            begin("rotate", fmt("%zu,%zu,%zu", a, b, c));
            auto r = std::rotate(B(a), B(b), B(c));
            auto mr = std::rotate(CB(a), CB(b), CB(c));
            if (static_cast<size_t>(r - vec.begin()) != static_cast<size_t>(mr - contents.begin())) viol("rotate_return", "std::rotate returned another position than on the model");
        }
        else if (alg == 1)
        {
            begin("reverse", fmt("%zu,%zu", a, c));
            std::reverse(B(a), B(c));
            std::reverse(CB(a), CB(c));
        }
        else
        {
            // [a, a+len) and [c', c'+len) disjoint
            const size_t len = std::min(b - a, n - c);
            size_t second = c;
            if (second < a + len) second = a + len;
            if (second + len > n) return;
            begin("swap_ranges", fmt("%zu,%zu,%zu", a, a + len, second));
            auto r = std::swap_ranges(B(a), B(a + len), B(second));
            std::swap_ranges(CB(a), CB(a + len), CB(second));
            if (static_cast<size_t>(r - vec.begin()) != second + len) viol("swap_ranges_return", "std::swap_ranges returned another position than on the model");
        }
        for (size_t i = 0; i < n; ++i) m.e[i].f = contents[i];
        nontrivial = nontrivial || c - a >= 2;
        cross_read("algorithm");
    }

    void op_arithmetic()
    {
        begin("iterator_arithmetic", "");
        Vec& vec = *v;
        const Vec& cv = vec;
        const auto n = static_cast<std::ptrdiff_t>(m.e.size());
        for (std::ptrdiff_t i = 0; i <= n; ++i)
            for (std::ptrdiff_t j = 0; j <= n; ++j)
            {
                ++arithmetic_pairs;
                auto a = vec.begin() + i;
                auto b = vec.begin() + j;
                typename Vec::const_iterator ca = cv.begin() + i;
                typename Vec::const_iterator cb = b;  // conversion
                bool ok = (a - b) == i - j && (ca - cb) == i - j;
                ok = ok && (a == b) == (i == j) && (a != b) == (i != j) && (a < b) == (i < j) && (a <= b) == (i <= j) && (a > b) == (i > j) && (a >= b) == (i >= j);
                ok = ok && (ca == cb) == (i == j) && (ca < cb) == (i < j) && (ca >= cb) == (i >= j);
                auto t = a;
                t += (j - i);
                ok = ok && t == b && t.index() == static_cast<size_t>(j);
                t -= (j - i);
                ok = ok && t == a;
                ok = ok && (a + (j - i)) == b && (b - (j - i)) == a && ((j - i) + a) == b;
                if (i < n)
                {
                    auto u = a;
                    auto old = u++;
                    ok = ok && old == a && u == vec.begin() + (i + 1);
                    auto w = a;
                    ++w;
                    ok = ok && w == u;
                    auto old2 = w--;
                    ok = ok && old2 == u && w == a;
                    --u;
                    ok = ok && u == a;
                }
                if (j < n)
                {
                    // a[j - i] denotes element j
                    ok = ok && a[j - i].data_begin() == vec[static_cast<size_t>(j)].data_begin() && ca[j - i].data_begin() == cv[static_cast<size_t>(j)].data_begin();
                    if (i < n) ok = ok && a.data() == vec[static_cast<size_t>(i)].data_begin();  // only for dereferenceable iterators
                }
                if (!ok)
                {
                    viol("iterator_arithmetic", fmt("iterator arithmetic / comparison disagrees with index arithmetic for indices %td and %td (size %td)", i, j, n));
                    return;
                }
            }
        // default-constructed and copied iterators
        typename Vec::iterator d1{}, d2{};
        (void)d1;
        (void)d2;
        auto e = vec.end();
        auto e2 = e;
        if (!(e2 == e) || (e2 - vec.begin()) != n) viol("iterator_copy", "copy of end() differs from end()");
    }

    void run_case(uint64_t seed, int64_t cno, size_t max_n, int max_steps)
    {
        rng = Rng(mix(seed, static_cast<uint64_t>(cno) + 0x5EF));
        case_no = cno;
        step = 0;
        out().viol_in_case = 0;
        out().soft_in_case = 0;
        trace.clear();
        hash = 0;
        next_id = 1;
        nontrivial = false;
        ledger().junk = static_cast<int>((seed + static_cast<uint64_t>(cno)) % 4);
        ledger().placement = static_cast<int>(cno % 2);
        m = MVec{};
        m.exists = true;
        const size_t n = 1 + static_cast<size_t>(rng.below(max_n));
        m.cap = n + static_cast<size_t>(rng.below(3));
        // mostly short spans; a third of the cases use long ones so that the coalesced byte runs (memmove / byte swap of
        // consecutive trivial fields) take every length, including multiples of typical block sizes
        const bool large = rng.chance(1, 3);
        auto span_len = [&]() { return static_cast<size_t>(large ? rng.below(41) : rng.below(4)); };
        for (size_t i = 0; i < Cfg::N_FIXED; ++i) m.fixed.push_back(span_len());
        std::vector<size_t> counts;
        for (size_t i = 0; i < Cfg::N_VARYING; ++i) counts.push_back(span_len());
        m.arena = K::ALWAYS_EQUAL ? 0 : 1;
        size_t per = 0;
        {
            size_t vi = 0;
            for (auto& f : Cfg::fields())
                if (f.kind == 'V') per += f.size * counts[vi++];
        }
        m.budget = per * m.cap;
        begin("build", fmt("n=%zu,cap=%zu,fixed=%s,counts=%s", n, m.cap, jarr_num(m.fixed).c_str(), jarr_num(counts).c_str()));
        {
            typename Vec::allocator_type alloc{m.arena};
            if constexpr (Cfg::N_FIXED != 0)
            {
                std::array<size_t, Cfg::N_FIXED> fs{};
                std::copy(m.fixed.begin(), m.fixed.end(), fs.begin());
                if constexpr (Cfg::N_VARYING != 0)
                    v.emplace(m.cap, m.budget, fs, alloc);
                else
                    v.emplace(m.cap, fs, alloc);
            }
            else if constexpr (Cfg::N_VARYING != 0)
                v.emplace(m.cap, m.budget, alloc);
            else
                v.emplace(m.cap, alloc);
        }
        for (size_t i = 0; i < n; ++i)
        {
            m.e.push_back(G::make_model_elem(next_id++, m.fixed, counts));
            G::emplace_back(*v, m.e.back());
        }
        cross_read("build");
        check_read_only();
        const int steps = static_cast<int>(rng.range(max_steps / 2, max_steps));
        for (step = 1; step <= steps && !out().viol_in_case; ++step)
        {
            const int r = static_cast<int>(rng.below(100));
            if (r < 30) op_write();
            else if (r < 50) op_assign();
            else if (r < 68) op_swap();
            else if (r < 92) op_algorithm();
            else op_arithmetic();
        }
        if (!out().viol_in_case) op_arithmetic();
        if (!out().viol_in_case)
        {
            set_ctx(case_no, step, "destroy", "vector", "C11,C06,C07", "");
            v.reset();
            if (ledger().live_count() != 0) violation("C07", "block_leaked", fmt("%zu blocks still allocated", ledger().live_count()));
            if (!registry().live.empty()) violation("C06", "objects_never_destroyed", fmt("%zu instrumented objects still alive", registry().live.size()));
        }
        else
        {
            auto* leak = new std::optional<Vec>(std::move(v));  // NOLINT
            (void)leak;
            v.reset();
        }
    }
};
}  // namespace

int main(int argc, char** argv)
{
    using Cfg = VF_CFG;
    using K = VF_KIND;
    Args args(argc, argv);
    open_out(args);
    ledger().release_hook = registry_release_hook;
    const uint64_t seed = static_cast<uint64_t>(args.num("seed", 1));
    const int64_t from = args.num("from", 0), to = args.num("to", 10);
    const size_t max_n = static_cast<size_t>(args.num("max-n", 7));
    const int max_steps = static_cast<int>(args.num("max-steps", 30));
    emit(J().kv("t", "hello").kv("engine", "ref").kv("cfg", VF_CFG_STR).kv("kind", K::name()).kv("category", Cfg::category()).str());
    Engine<Cfg, K> e;
    uint64_t steps = 0;
    for (int64_t c = from; c < to; ++c)
    {
        emit(J().kv("t", "case_begin").kv("case", c).str());
        arm_case_watchdog(40);
        e.run_case(seed, c, max_n, max_steps);
        steps += static_cast<uint64_t>(e.step);
        registry().reset();
        const int v = out().viol_in_case;
        if (v == 0) ledger().reset(); else ledger().blocks.clear();
        J j;
        j.kv("t", "case_end").kv("case", c).kv("steps", e.step).kv("viol", v).kv("hash", fmt("%016" PRIx64, e.hash)).raw("nt", fmt("{\"C11\":%d}", int(e.nontrivial)));
        if (c - from < 2) j.raw("trace", jarr_str(e.trace));
        emit(j.str());
        if (v != 0 && c + 1 < to)
        {
            emit(J().kv("t", "bail").kv("next", c + 1).str());
            break;
        }
    }
    counters().add("cross_reads", e.cross_reads);
    counters().add("iterator_index_pairs", e.arithmetic_pairs);
    emit(J().kv("t", "summary").raw("ops", Counters{e.op_count}.json()).raw("counters", counters().json()).kv("steps", steps).kv("avoided", 0).raw("prestate_op", "[]").kv("objects_constructed", registry().constructed).kv("objects_destroyed", registry().destroyed).kv("alloc_events", ledger().alloc_events).kv("dealloc_events", ledger().dealloc_events).str());
    return 0;
}
