// matrix engine (C20): one cell per documented operation for the configuration / allocator kind of this unit.
// The whole unit is compiled first (all cells); if that fails the driver compiles one cell per unit (-DVF_ONLY_OP=n)
// to find the ill-formed ones. Every cell that compiles is executed under the sanitizers with a small postcondition.
#include "vf/vecmon.hpp"

#include <memory>

using namespace vf;

#ifndef VF_ONLY_OP
#define VF_ONLY_OP -1
#endif
#define VF_CELL(n) (VF_ONLY_OP == -1 || VF_ONLY_OP == (n))

namespace
{
struct Cell
{
    int id;
    const char* name;
    void (*fn)();
};

// an allocator that is an empty class declared final (a valid Cpp17Allocator; it cannot be used as an empty base)
template <class U>
struct FinalAlloc final
{
    using value_type = U;
    FinalAlloc() = default;
    explicit FinalAlloc(int) {}
    template <class W>
    FinalAlloc(const FinalAlloc<W>&) noexcept {}
    U* allocate(std::size_t n) { return LedgerAlloc<U, Kind<false, false, false, false>>{1}.allocate(n); }
    void deallocate(U* p, std::size_t n) noexcept { LedgerAlloc<U, Kind<false, false, false, false>>{1}.deallocate(p, n); }
    template <class W>
    friend bool operator==(const FinalAlloc&, const FinalAlloc<W>&) noexcept { return true; }
    template <class W>
    friend bool operator!=(const FinalAlloc&, const FinalAlloc<W>&) noexcept { return false; }
};

uint64_t g_next_id = 1;

template <class Cfg, class K>
struct M
{
using Alloc = LedgerAlloc<std::byte, K>;
using Vec = typename Cfg::template Vec<Alloc>;
using G = Glue<Cfg>;
using Mon = VecMon<Cfg, Vec>;
static constexpr size_t NF = Cfg::NF;

static std::vector<size_t> fixed_sizes() { return std::vector<size_t>(Cfg::N_FIXED, 2); }

template <class V = Vec>
static V make_empty(size_t cap, int arena = 1)
{
    typename V::allocator_type alloc{arena};
    const size_t bytes = cap * 64 + 64;
    if constexpr (Cfg::N_FIXED != 0)
    {
        std::array<size_t, Cfg::N_FIXED> fs{};
        fs.fill(2);
        if constexpr (Cfg::N_VARYING != 0)
            return V(cap, bytes, fs, alloc);
        else
            return V(cap, fs, alloc);
    }
    else if constexpr (Cfg::N_VARYING != 0)
        return V(cap, bytes, alloc);
    else
        return V(cap, alloc);
}

static MElem model_elem(size_t varying = 2) { return G::make_model_elem(g_next_id++, fixed_sizes(), std::vector<size_t>(Cfg::N_VARYING, varying)); }

template <class V = Vec>
static V make_filled(std::vector<MElem>& model, size_t n = 3, size_t cap = 5, int arena = 1)
{
    V v = make_empty<V>(cap, arena);
    for (size_t i = 0; i < n; ++i)
    {
        model.push_back(model_elem(1 + i % 2));
        G::emplace_back(v, model.back());
    }
    return v;
}

template <class V>
static void expect(const V& v, const std::vector<MElem>& model, const char* what)
{
    if (v.size() != model.size())
    {
        violation("C20", "postcondition", fmt("%s: size() == %zu, expected %zu", what, v.size(), model.size()));
        return;
    }
    for (size_t i = 0; i < model.size(); ++i)
        if (!elem_match(model[i], G::read(v[i])))
        {
            violation("C20", "postcondition", fmt("%s: element %zu is %s, expected %s", what, i, elem_str(G::read(v[i])).c_str(), elem_str(model[i]).c_str()));
            return;
        }
}

template <class R>
static void expect_elem(const R& r, const MElem& m, const char* what)
{
    if (!elem_match(m, G::read(r))) violation("C20", "postcondition", fmt("%s: got %s, expected %s", what, elem_str(G::read(r)).c_str(), elem_str(m).c_str()));
}

static void require(bool b, const char* what)
{
    if (!b) violation("C20", "postcondition", what);
}

// ------------------------------------------------------------------------------------------------ cells
#if VF_CELL(0)
static void c_ctor_sized()
{
    // the constructor form of the category, allocator defaulted
    if constexpr (Cfg::N_FIXED != 0)
    {
        std::array<size_t, Cfg::N_FIXED> fs{};
        fs.fill(2);
        if constexpr (Cfg::N_VARYING != 0)
        {
            Vec v(3, 64, fs);
            require(v.capacity() == 3 && v.empty(), "Vec(n, bytes, fixed_sizes)");
            Vec w{3, 64, {}};
            (void)w;
        }
        else
        {
            Vec v(3, fs);
            require(v.capacity() == 3 && v.empty(), "Vec(n, fixed_sizes)");
        }
    }
    else if constexpr (Cfg::N_VARYING != 0)
    {
        Vec v(3, 64);
        require(v.capacity() == 3 && v.empty(), "Vec(n, bytes)");
    }
    else
    {
        Vec v(3);
        require(v.capacity() == 3 && v.empty(), "Vec(n)");
    }
}
#endif
#if VF_CELL(1)
static void c_ctor_sized_alloc()
{
    Vec v = make_empty(3, 2);
    require(v.capacity() == 3 && v.empty() && v.get_allocator().get_arena() == (K::ALWAYS_EQUAL ? 0 : 2), "allocator-extended constructor");
}
#endif
#if VF_CELL(2)
static void c_ctor_default()
{
    Vec v;
    require(v.size() == 0 && v.empty() && v.begin() == v.end(), "default constructor");
    Vec w{};
    (void)w;
}
#endif
#if VF_CELL(3)
static void c_copy_construct()
{
    if constexpr (Cfg::ALL_COPYABLE)
    {
        std::vector<MElem> m;
        Vec v = make_filled(m);
        Vec w(v);
        expect(w, m, "copy construction");
        expect(v, m, "source after copy construction");
        Vec x = v;
        expect(x, m, "copy initialisation");
    }
}
#endif
#if VF_CELL(4)
static void c_move_construct()
{
    std::vector<MElem> m;
    Vec v = make_filled(m);
    Vec w(std::move(v));
    expect(w, m, "move construction");
}
#endif
#if VF_CELL(5)
static void c_copy_assign()
{
    if constexpr (Cfg::ALL_COPYABLE)
    {
        std::vector<MElem> m, m2;
        Vec v = make_filled(m);
        Vec w = make_filled(m2, 1, 2, 2);
        w = v;
        expect(w, m, "copy assignment");
        expect(v, m, "source after copy assignment");
        Vec d;
        d = v;
        expect(d, m, "copy assignment to a default-constructed vector");
    }
}
#endif
#if VF_CELL(6)
static void c_move_assign()
{
    std::vector<MElem> m, m2;
    Vec v = make_filled(m);
    Vec w = make_filled(m2, 1, 2, 2);
    w = std::move(v);
    expect(w, m, "move assignment");
    std::vector<MElem> m3;
    Vec s = make_filled(m3);
    Vec d;
    d = std::move(s);
    expect(d, m3, "move assignment to a default-constructed vector");
}
#endif
#if VF_CELL(7)
static void c_emplace_back()
{
    std::vector<MElem> m;
    Vec v = make_filled(m, 4, 4);
    expect(v, m, "emplace_back");
    expect(std::as_const(v), m, "emplace_back (const access)");
}
#endif
#if VF_CELL(8)
static void c_pop_back()
{
    std::vector<MElem> m;
    Vec v = make_filled(m);
    v.pop_back();
    m.pop_back();
    expect(v, m, "pop_back");
}
#endif
#if VF_CELL(9)
static void c_erase_pos()
{
    std::vector<MElem> m;
    Vec v = make_filled(m, 3, 3);
    // erase the larger middle element so that nothing overlaps (known finding KF-erase-overlap is not C20's business)
    auto it = v.erase(v.begin() + 1);
    m.erase(m.begin() + 1);
    require(it == v.begin() + 1, "erase(position) returns the following element");
    expect(v, m, "erase(position)");
    typename Vec::const_iterator cit = v.cbegin();
    v.erase(cit + 1);
    m.erase(m.begin() + 1);
    expect(v, m, "erase(const_iterator) of the last element");
}
#endif
#if VF_CELL(10)
static void c_erase_range()
{
    std::vector<MElem> m;
    Vec v = make_filled(m, 4, 4);
    auto it = v.erase(v.begin() + 2, v.end());
    m.erase(m.begin() + 2, m.end());
    require(it == v.end(), "erase(first, end()) returns end()");
    expect(v, m, "erase(first, last)");
    v.erase(v.begin(), v.begin());
    expect(v, m, "erase of an empty range");
    v.erase(v.begin(), v.end());
    require(v.empty(), "erase(begin(), end())");
}
#endif
#if VF_CELL(11)
static void c_clear()
{
    std::vector<MElem> m;
    Vec v = make_filled(m);
    v.clear();
    require(v.empty() && v.size() == 0 && v.capacity() == 5, "clear");
}
#endif
#if VF_CELL(12)
static void c_reserve()
{
    std::vector<MElem> m;
    Vec v = make_filled(m, 2, 2);
    if constexpr (Cfg::N_VARYING != 0)
        v.reserve(6, 6 * 64);
    else
        v.reserve(6);
    require(v.capacity() == 6, "reserve: capacity");
    expect(v, m, "reserve");
    m.push_back(model_elem());
    G::emplace_back(v, m.back());
    expect(v, m, "emplace_back after reserve");
}
#endif
#if VF_CELL(13)
static void c_swap()
{
    std::vector<MElem> m, m2;
    Vec v = make_filled(m, 3, 5, 1);
    Vec w = make_filled(m2, 1, 2, 1);
    using std::swap;
    swap(v, w);
    expect(v, m2, "swap (lhs)");
    expect(w, m, "swap (rhs)");
    std::swap(v, w);
    expect(v, m, "std::swap");
}
#endif
#if VF_CELL(14)
static void c_compare_vectors()
{
    std::vector<MElem> m, m2;
    Vec v = make_filled(m, 2, 3);
    g_next_id = 1;
    Vec w = make_filled(m2, 2, 4);
    constexpr bool IDENTITY_COMPARED = Cfg::HAS_UNIQUE_PTR;  // std::unique_ptr fields compare by address
    require(v == v && !(v != v) && !(v < v) && v <= v && v >= v && !(v > v), "vector compared with itself");
    if constexpr (IDENTITY_COMPARED) return;
    require(v == w && !(v != w), "vector == vector with equal content");
    require(!(v < w) && !(v > w) && v <= w && v >= w, "vector relational operators on equal content");
    m2.push_back(model_elem());
    G::emplace_back(w, m2.back());
    require(v != w && !(v == w), "vector != longer vector");
    require((v < w) != (w < v) || (!(v < w) && !(w < v)), "vector < is asymmetric");
    const Vec& cv = v;
    require(cv == v && v == cv, "const vector == vector");
    // other allocator option
    using Vec2 = typename Cfg::template Vec<LedgerAlloc<std::byte, Kind<true, false, false, false>>>;
    g_next_id = 1;
    std::vector<MElem> m3;
    Vec2 x = make_filled<Vec2>(m3, 2, 3);
    require(v == x && !(v != x) && x == v, "vector == vector with another allocator");
    require(!(v < x) && v <= x && !(v > x) && v >= x, "relational operators across allocator types");
}
#endif
#if VF_CELL(15)
static void c_compare_references()
{
    std::vector<MElem> m;
    Vec v = make_filled(m, 2, 3);
    typename Vec::reference r0 = v[0], r1 = v[1];
    typename Vec::const_reference c0 = std::as_const(v)[0], c1 = std::as_const(v)[1];
    require(r0 == r0 && r0 == c0 && c0 == r0 && c0 == c0, "reference == in all const combinations");
    require(r0 != r1 && r0 != c1 && c0 != r1 && c0 != c1, "reference != in all const combinations");
    require((r0 < r1) == (c0 < c1) && (r0 < c1) == (c0 < r1), "reference < in all const combinations");
    require((r0 <= r1) == (c0 <= c1) && (r0 > r1) == (c0 > c1) && (r0 >= r1) == (c0 >= c1), "reference <= > >= in all const combinations");
    require((r0 <= c1) == (c0 <= r1) && (r0 > c1) == (c0 > r1) && (r0 >= c1) == (c0 >= r1), "reference <= > >= mixed");
}
#endif
#if VF_CELL(16)
static void c_compare_elements()
{
    if constexpr (Cfg::ALL_COPYABLE)
    {
        std::vector<MElem> m;
        Vec v = make_filled(m, 2, 3);
        typename Vec::value_type e0{std::as_const(v)[0]}, e1{std::as_const(v)[1]};
        const typename Vec::value_type& ce0 = e0;
        require(e0 == e0 && e0 == ce0 && !(e0 != ce0) && e0 != e1, "element == / != element");
        require(e0 == v[0] && v[0] == e0 && e0 == std::as_const(v)[0] && std::as_const(v)[0] == e0, "element == reference in both orders");
        require(e0 != v[1] && v[1] != e0 && ce0 != std::as_const(v)[1] && std::as_const(v)[1] != ce0, "element != reference in both orders");
        require((e0 < e1) == (v[0] < v[1]) && (e0 < v[1]) == (v[0] < e1), "element < element / reference");
        require((e0 <= e1) == (v[0] <= v[1]) && (e0 > e1) == (v[0] > v[1]) && (e0 >= e1) == (v[0] >= v[1]), "element <= > >=");
        require((e0 <= v[1]) == (v[0] <= e1) && (e0 > v[1]) == (v[0] > e1) && (e0 >= v[1]) == (v[0] >= e1), "element <= > >= reference");
    }
}
#endif
#if VF_CELL(17)
static void c_iteration()
{
    std::vector<MElem> m;
    Vec v = make_filled(m, 3, 4);
    size_t i = 0;
    for (auto&& r : v) expect_elem(r, m[i++], "range-for");
    i = 0;
    for (auto&& r : std::as_const(v)) expect_elem(r, m[i++], "const range-for");
    typename Vec::const_iterator ci = v.begin();
    require(ci == v.cbegin() && v.cend() - v.cbegin() == 3, "iterator -> const_iterator, cbegin/cend");
    typename Vec::iterator it = v.begin();
    it += 2;
    --it;
    it++;
    it--;
    ++it;
    require(it - v.begin() == 2 && it[0] == v[2] && *(it - 1) == v[1] && (it > v.begin()) && (v.begin() < it) && it >= it && it <= it, "random access iterator operations");
    require(it->data_begin() == v[2].data_begin(), "iterator operator->");
    // iterator and const_iterator are interoperable in either operand order (loops like `it != v.cend()`)
    require(v.begin() != v.cend() && !(v.begin() == v.cend()) && v.cbegin() != v.end() && !(v.cbegin() == v.end()), "mixed iterator / const_iterator ==, !=");
    require(v.begin() < v.cend() && v.begin() <= v.cend() && v.end() > v.cbegin() && v.end() >= v.cbegin() && v.cbegin() < v.end() && v.cbegin() <= v.end() && v.cend() > v.begin() && v.cend() >= v.begin(),
            "mixed iterator / const_iterator relational operators");
    require(v.end() - v.cbegin() == 3 && v.cend() - v.begin() == 3, "mixed iterator / const_iterator difference");
    typename Vec::const_iterator ci2{};
    ci2 = it;
    require(ci2 == it && it == ci2 && ci2.index() == 2, "const_iterator = iterator");
    expect_elem(v.front(), m.front(), "front()");
    expect_elem(std::as_const(v).back(), m.back(), "const back()");
}
#endif

template <class R, size_t... I>
static bool bindings_match(R&& r, std::index_sequence<I...>)
{
    // structured bindings need a literal number of names: spelled out for every field count in use
    auto same = [](auto&& a, auto&& b)
    {
        using A = std::decay_t<decltype(a)>;
        if constexpr (std::is_pointer_v<decltype(a.data())>)
            return a.data() == b.data() && a.size() == b.size();
        else
            return std::addressof(a) == std::addressof(b);
    };
    (void)same;
    if constexpr (sizeof...(I) == 1)
    {
        auto&& [a] = r;
        return ((void)a, true);
    }
    else if constexpr (sizeof...(I) == 2)
    {
        auto&& [a, b] = r;
        return ((void)a, (void)b, true);
    }
    else if constexpr (sizeof...(I) == 3)
    {
        auto&& [a, b, c] = r;
        return ((void)a, (void)b, (void)c, true);
    }
    else if constexpr (sizeof...(I) == 4)
    {
        auto&& [a, b, c, d] = r;
        return ((void)a, (void)b, (void)c, (void)d, true);
    }
    else if constexpr (sizeof...(I) == 5)
    {
        auto&& [a, b, c, d, e] = r;
        return ((void)a, (void)b, (void)c, (void)d, (void)e, true);
    }
    else if constexpr (sizeof...(I) == 6)
    {
        auto&& [a, b, c, d, e, f] = r;
        return ((void)a, (void)b, (void)c, (void)d, (void)e, (void)f, true);
    }
    else
        return true;
}

template <class T>
static uintptr_t addr_of_binding(T&& x)
{
    if constexpr (std::is_lvalue_reference_v<T&&> && !std::is_class_v<std::decay_t<T>>)
        return reinterpret_cast<uintptr_t>(std::addressof(x));
    else
        return 0;
}

#if VF_CELL(18)
static void c_bindings_reference()
{
    std::vector<MElem> m;
    Vec v = make_filled(m, 2, 3);
    require(bindings_match(v[0], std::make_index_sequence<NF>{}), "structured bindings of a reference");
    auto r = v[1];
    require(bindings_match(r, std::make_index_sequence<NF>{}), "structured bindings of a named reference");
    static_assert(std::tuple_size<typename Vec::reference>::value == NF);
    // first binding denotes the stored object
    if constexpr (NF >= 1)
    {
        using T0 = std::tuple_element_t<0, typename Vec::reference>;
        T0 first = cntgs::get<0>(r);
        (void)first;
    }
}
#endif
#if VF_CELL(19)
static void c_bindings_const_reference()
{
    std::vector<MElem> m;
    Vec v = make_filled(m, 2, 3);
    require(bindings_match(std::as_const(v)[0], std::make_index_sequence<NF>{}), "structured bindings of a const_reference");
    static_assert(std::tuple_size<typename Vec::const_reference>::value == NF);
}
#endif
#if VF_CELL(20)
static void c_bindings_element()
{
    std::vector<MElem> m;
    Vec v = make_filled(m, 2, 3);
    typename Vec::value_type e{std::move(v[0])};
    require(bindings_match(e, std::make_index_sequence<NF>{}), "structured bindings of an element");
    const typename Vec::value_type& ce = e;
    require(bindings_match(ce, std::make_index_sequence<NF>{}), "structured bindings of a const element");
    static_assert(std::tuple_size<typename Vec::value_type>::value == NF);
}
#endif
#if VF_CELL(21)
static void c_reference_assign()
{
    std::vector<MElem> m;
    Vec v = make_filled(m, 0, 4);
    for (int i = 0; i < 4; ++i)
    {
        m.push_back(model_elem(2));  // equal field sizes
        G::emplace_back(v, m.back());
    }
    if constexpr (Cfg::ALL_COPY_ASSIGNABLE)
    {
        auto r1 = v[1];
        v[0] = r1;  // lvalue reference: copy (a prvalue `v[1]` is an rvalue mutable reference and is moved from)
        expect_elem(v[0], m[1], "reference = reference");
        expect_elem(v[1], m[1], "source of reference = reference");
        v[2] = std::as_const(v)[3];
        expect_elem(v[2], m[3], "reference = const_reference");
        m[0] = m[1];
        m[2] = m[3];
    }
    v[1] = std::move(v[3]);
    m[1] = m[3];
    expect_elem(v[1], m[1], "reference = rvalue reference (move)");
    using std::swap;
    m.clear();
    std::vector<MElem> m2;
    Vec w = make_filled(m2, 0, 2);
    for (int i = 0; i < 2; ++i)
    {
        m2.push_back(model_elem(2));
        G::emplace_back(w, m2.back());
    }
    swap(w[0], w[1]);
    expect_elem(w[0], m2[1], "swap(reference, reference) lhs");
    expect_elem(w[1], m2[0], "swap(reference, reference) rhs");
    std::iter_swap(w.begin(), w.begin() + 1);
    expect_elem(w[0], m2[0], "iter_swap");
}
#endif
#if VF_CELL(22)
static void c_element_construct()
{
    std::vector<MElem> m;
    Vec v = make_filled(m, 3, 3);
    using E = typename Vec::value_type;
    E a{std::move(v[0])};
    expect_elem(a, m[0], "element from rvalue reference");
    E a2{std::move(v[1]), typename E::allocator_type{2}};
    expect_elem(a2, m[1], "element from rvalue reference, allocator-extended");
    E moved{std::move(a)};
    expect_elem(moved, m[0], "element move construction");
    E moved2{std::move(moved), typename E::allocator_type{1}};
    expect_elem(moved2, m[0], "element allocator-extended move construction");
    if constexpr (Cfg::ALL_COPYABLE)
    {
        auto r2 = v[2];
        E b{r2};  // lvalue reference: copy (a prvalue mutable reference is moved from)
        expect_elem(b, m[2], "element from reference");
        expect_elem(v[2], m[2], "source after element from lvalue reference");
        E c{std::as_const(v)[2]};
        expect_elem(c, m[2], "element from const_reference");
        E c2{std::as_const(v)[2], typename E::allocator_type{2}};
        expect_elem(c2, m[2], "element from const_reference, allocator-extended");
        E d{c};
        expect_elem(d, m[2], "element copy construction");
        E d2{c, typename E::allocator_type{2}};
        expect_elem(d2, m[2], "element allocator-extended copy construction");
    }
}
#endif
#if VF_CELL(23)
static void c_element_assign()
{
    std::vector<MElem> m;
    Vec v = make_filled(m, 0, 4);
    for (int i = 0; i < 4; ++i)
    {
        m.push_back(model_elem(2));
        G::emplace_back(v, m.back());
    }
    using E = typename Vec::value_type;
    E a{std::move(v[0])};
    E b{std::move(v[1])};
    a = std::move(b);
    expect_elem(a, m[1], "element move assignment");
    using std::swap;
    E c{std::move(v[2])};
    swap(a, c);
    expect_elem(a, m[2], "swap(element, element) lhs");
    expect_elem(c, m[1], "swap(element, element) rhs");
    // element -> reference of equal sizes
    v[3] = std::move(a);
    expect_elem(v[3], m[2], "reference = rvalue element");
    if constexpr (Cfg::ALL_COPYABLE && Cfg::ALL_COPY_ASSIGNABLE)
    {
        std::vector<MElem> m2;
        Vec w = make_filled(m2, 0, 3);
        for (int i = 0; i < 3; ++i)
        {
            m2.push_back(model_elem(2));
            G::emplace_back(w, m2.back());
        }
        E x{std::as_const(w)[0]}, y{std::as_const(w)[1]};
        x = y;
        expect_elem(x, m2[1], "element copy assignment");
        auto w2 = w[2];
        x = w2;  // lvalue reference: copy
        expect_elem(x, m2[2], "element = reference");
        expect_elem(w[2], m2[2], "source after element = lvalue reference");
        x = std::as_const(w)[0];
        expect_elem(x, m2[0], "element = const_reference");
        w[1] = x;
        expect_elem(w[1], m2[0], "reference = const element&");
        const E& cx = x;
        w[2] = cx;
        expect_elem(w[2], m2[0], "reference = const element");
    }
}
#endif
#if VF_CELL(24)
static void c_accessors()
{
    std::vector<MElem> m;
    Vec v = make_filled(m, 2, 3);
    const Vec& cv = v;
    require(cv.size() == 2 && !cv.empty() && cv.capacity() == 3 && cv.memory_consumption() > 0, "size/empty/capacity/memory_consumption");
    require(cv.data_begin() != nullptr && cv.data_end() >= cv.data_begin() && v.data_begin() == cv.data_begin() && v.data_end() == cv.data_end() && v.data() == cv.data(), "data_begin/data_end/data");
    require(Mon::fixed_sizes(cv) == fixed_sizes(), "get_fixed_size");
    auto a = cv.get_allocator();
    (void)a;
    expect_elem(v[1], m[1], "operator[]");
    expect_elem(cv[1], m[1], "const operator[]");
    typename Vec::reference r = v[0];
    typename Vec::const_reference cr = r;  // reference -> const_reference
    expect_elem(cr, m[0], "reference -> const_reference conversion");
    require(r.data_begin() == cr.data_begin() && r.data_end() == cr.data_end() && r.size_in_bytes() == cr.size_in_bytes(), "reference data_begin/data_end/size_in_bytes");
}
#endif

#if VF_CELL(25)
static void c_final_allocator()
{
    // every operation of the category with an allocator type that is empty and final
    using FV = typename Cfg::template Vec<FinalAlloc<std::byte>>;
    std::vector<MElem> m;
    FV v = make_filled<FV>(m, 3, 5);
    expect(v, m, "vector with an empty final allocator");
    FV d;
    require(d.empty() && d.begin() == d.end(), "default construction with an empty final allocator");
    FV mv(std::move(v));
    expect(mv, m, "move construction with an empty final allocator");
    v = std::move(mv);
    expect(v, m, "move assignment with an empty final allocator");
    if constexpr (Cfg::ALL_COPYABLE)
    {
        FV c(v);
        expect(c, m, "copy construction with an empty final allocator");
        d = c;
        expect(d, m, "copy assignment with an empty final allocator");
        typename FV::value_type e{std::as_const(v)[1]};
        expect_elem(e, m[1], "element with an empty final allocator");
        typename FV::value_type e2{e};
        e2 = e;
        expect_elem(e2, m[1], "element copy with an empty final allocator");
        require(c == v && !(c != v) && !(c < v), "comparison with an empty final allocator");
    }
    typename FV::value_type me{std::move(v[0])};
    (void)me;
    FV o = make_empty<FV>(8);
    using std::swap;
    swap(o, v);
    require(o.size() == 3 && v.empty(), "swap with an empty final allocator");
    if constexpr (Cfg::N_VARYING != 0)
        o.reserve(9, 9 * 64 + 64);
    else
        o.reserve(9);
    o.pop_back();
    o.erase(o.end() - 1);  // the last one: relocation by erase is the erase cells' business (and an open finding)
    o.clear();
    require(o.empty() && o.get_allocator() == FinalAlloc<std::byte>{}, "reserve / pop_back / erase / clear / get_allocator with an empty final allocator");
}
#endif

static std::vector<Cell> cells()
{
    return {
#if VF_CELL(0)
    {0, "construct(size...)", c_ctor_sized},
#endif
#if VF_CELL(1)
    {1, "construct(size..., allocator)", c_ctor_sized_alloc},
#endif
#if VF_CELL(2)
    {2, "default construct", c_ctor_default},
#endif
#if VF_CELL(3)
    {3, "copy construct", c_copy_construct},
#endif
#if VF_CELL(4)
    {4, "move construct", c_move_construct},
#endif
#if VF_CELL(5)
    {5, "copy assign", c_copy_assign},
#endif
#if VF_CELL(6)
    {6, "move assign", c_move_assign},
#endif
#if VF_CELL(7)
    {7, "emplace_back", c_emplace_back},
#endif
#if VF_CELL(8)
    {8, "pop_back", c_pop_back},
#endif
#if VF_CELL(9)
    {9, "erase(position)", c_erase_pos},
#endif
#if VF_CELL(10)
    {10, "erase(first,last)", c_erase_range},
#endif
#if VF_CELL(11)
    {11, "clear", c_clear},
#endif
#if VF_CELL(12)
    {12, "reserve", c_reserve},
#endif
#if VF_CELL(13)
    {13, "swap", c_swap},
#endif
#if VF_CELL(14)
    {14, "vector comparisons", c_compare_vectors},
#endif
#if VF_CELL(15)
    {15, "reference comparisons", c_compare_references},
#endif
#if VF_CELL(16)
    {16, "element comparisons", c_compare_elements},
#endif
#if VF_CELL(17)
    {17, "iteration", c_iteration},
#endif
#if VF_CELL(18)
    {18, "structured bindings: reference", c_bindings_reference},
#endif
#if VF_CELL(19)
    {19, "structured bindings: const_reference", c_bindings_const_reference},
#endif
#if VF_CELL(20)
    {20, "structured bindings: element", c_bindings_element},
#endif
#if VF_CELL(21)
    {21, "reference assignment / swap", c_reference_assign},
#endif
#if VF_CELL(22)
    {22, "element construction", c_element_construct},
#endif
#if VF_CELL(23)
    {23, "element assignment / swap / reference = element", c_element_assign},
#endif
#if VF_CELL(24)
    {24, "accessors", c_accessors},
#endif
#if VF_CELL(25)
    {25, "allocator type that is an empty final class", c_final_allocator},
#endif
    };
}
};
}  // namespace

int main(int argc, char** argv)
{
    using Cfg = VF_CFG;
    using K = VF_KIND;
    Args args(argc, argv);
    open_out(args);
    ledger().release_hook = registry_release_hook;
    emit(J().kv("t", "hello").kv("engine", "matrix").kv("cfg", VF_CFG_STR).kv("kind", K::name()).kv("category", Cfg::category()).str());
    const int64_t from = args.num("from", 0), to = args.num("to", 1000);
    std::vector<std::string> executed;
    for (const Cell& c : M<Cfg, K>::cells())
    {
        if (c.id < from || c.id >= to) continue;
        emit(J().kv("t", "case_begin").kv("case", c.id).str());
        arm_case_watchdog(40);
        out().viol_in_case = 0;
        set_ctx(c.id, 0, c.name, "cell", "C20", VF_CFG_STR);
        ledger().junk = c.id % 4;
        g_next_id = 1;
        c.fn();
        set_ctx(c.id, 1, c.name, "cell-teardown", "C20", VF_CFG_STR);
        if (ledger().live_count() != 0) violation("C20", "postcondition", fmt("%zu blocks still allocated after the cell", ledger().live_count()));
        if (!registry().live.empty()) violation("C20", "postcondition", fmt("%zu instrumented objects still alive after the cell", registry().live.size()));
        registry().reset();
        if (out().viol_in_case == 0) ledger().reset(); else ledger().blocks.clear();
        executed.push_back(c.name);
        emit(J().kv("t", "case_end").kv("case", c.id).kv("steps", 1).kv("viol", out().viol_in_case).kv("hash", fmt("%s|%d", VF_CFG_STR, c.id)).raw("nt", "{\"C20\":1}").raw("trace", jarr_str({std::string(c.name) + " on " + VF_CFG_STR + " / " + K::name()})).str());
    }
    emit(J().kv("t", "summary").raw("ops", "{\"cells\":" + std::to_string(executed.size()) + "}").raw("counters", counters().json()).kv("steps", static_cast<uint64_t>(executed.size())).kv("avoided", 0).raw("prestate_op", jarr_str(executed)).kv("objects_constructed", registry().constructed).kv("objects_destroyed", registry().destroyed).kv("alloc_events", ledger().alloc_events).kv("dealloc_events", ledger().dealloc_events).str());
    return 0;
}
