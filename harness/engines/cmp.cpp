// cmp engine (C13, C14): per case an operand pool of logical elements / vectors over a small value domain (ties,
// one-field differences, prefix-related spans, empty), materialised several times (different capacity, junk pattern,
// arena and allocator type; references, const references, elements); all ordered pairs and all triples are compared.
#include "vf/vecmon.hpp"

using namespace vf;

namespace
{
// A bump arena whose allocate(0) hands out the current position without advancing (the result of a zero-size request is
// unspecified, this is what monotonic arenas do): the zero-byte block of a capacity-0 vector and the block of the vector
// created next then have the SAME address. Address tables go to a second region so that the data blocks stay adjacent.
struct Bump
{
    alignas(64) unsigned char data[1 << 15];
    alignas(64) unsigned char tables[1 << 12];
    size_t cur_data = 0, cur_tables = 0;
};

template <class T>
struct BumpAlloc
{
    using value_type = T;
    using is_always_equal = std::false_type;
    Bump* arena = nullptr;
    BumpAlloc() = default;
    explicit BumpAlloc(Bump* a) noexcept : arena(a) {}
    template <class U>
    BumpAlloc(const BumpAlloc<U>& o) noexcept : arena(o.arena)
    {
    }
    T* allocate(std::size_t n)
    {
        constexpr bool TABLE = std::is_same_v<T, std::size_t>;
        unsigned char* base = TABLE ? arena->tables : arena->data;
        size_t& cur = TABLE ? arena->cur_tables : arena->cur_data;
        const size_t cap = TABLE ? sizeof arena->tables : sizeof arena->data;
        cur = (cur + alignof(T) - 1) / alignof(T) * alignof(T);
        if (cur + n * sizeof(T) > cap) throw std::bad_alloc();
        T* p = reinterpret_cast<T*>(base + cur);
        cur += n * sizeof(T);
        return p;
    }
    void deallocate(T*, std::size_t) noexcept {}
    template <class U>
    friend bool operator==(const BumpAlloc& a, const BumpAlloc<U>& b) noexcept
    {
        return a.arena == b.arena;
    }
    template <class U>
    friend bool operator!=(const BumpAlloc& a, const BumpAlloc<U>& b) noexcept
    {
        return a.arena != b.arena;
    }
};

template <class Cfg, class K>
struct Engine
{
    using VecC = typename Cfg::template Vec<BumpAlloc<std::byte>>;
    using AllocA = LedgerAlloc<std::byte, K>;
    using AllocB = LedgerAlloc<std::byte, Kind<true, false, false, false>>;
    using VecA = typename Cfg::template Vec<AllocA>;
    using VecB = typename Cfg::template Vec<AllocB>;
    using ElemA = typename VecA::value_type;
    using ElemB = typename VecB::value_type;
    using G = Glue<Cfg>;
    static constexpr size_t NF = Cfg::NF;

    Rng rng{1};
    int64_t case_no = 0;
    uint64_t pairs_checked = 0, triples_checked = 0, comparisons = 0, vec_pairs = 0;
    uint64_t nontrivial_pairs = 0;
    uint64_t shared_address_pairs = 0;
    uint64_t byte_twins = 0;
    std::vector<std::string> trace;
    uint64_t hash = 0;

    enum Bits { EQ = 1, NE = 2, LT = 4, LE = 8, GT = 16, GE = 32 };

    template <class X, class Y>
    unsigned cmp6(const X& x, const Y& y)
    {
        ++comparisons;
        unsigned m = 0;
        if (x == y) m |= EQ;
        if (x != y) m |= NE;
        if (x < y) m |= LT;
        if (x <= y) m |= LE;
        if (x > y) m |= GT;
        if (x >= y) m |= GE;
        return m;
    }

    // ground truth for equality: the value type's own operator== on freshly made objects
    static bool model_eq(const MElem& a, const MElem& b)
    {
        bool eq = true;
        for_each_index<NF>(
            [&](auto I)
            {
                using T = typename Cfg::template TypeAt<I>;
                if (a.f[I].size() != b.f[I].size())
                {
                    eq = false;
                    return;
                }
                for (size_t k = 0; k < a.f[I].size(); ++k)
                {
                    const T x = Codec<T>::make(a.f[I][k]);
                    const T y = Codec<T>::make(b.f[I][k]);
                    if (!(x == y)) eq = false;
                }
            });
        return eq;
    }

    int64_t domain_value(size_t field)
    {
        const auto& f = Cfg::fields()[field];
        const bool is_float = std::string(f.tname) == "f32" || std::string(f.tname) == "f64";
        const int r = static_cast<int>(rng.below(is_float ? 8 : 6));
        switch (r)
        {
            case 0: return 0;
            case 1: return 1;
            case 2: return 2;
            case 3: return 255;  // high byte: distinguishes signed / unsigned byte order
            case 4: return 8;    // equal to 0 / 2 for a type that compares modulo 8, different bytes
            case 5: return 10;
            case 6: return CODE_NEG_ZERO;
            default: return CODE_NAN;
        }
    }

    MElem random_elem(const std::vector<size_t>& fixed)
    {
        MElem m;
        m.f.resize(NF);
        size_t fi = 0;
        const auto& f = Cfg::fields();
        for (size_t k = 0; k < NF; ++k)
        {
            size_t n = 1;
            if (f[k].kind == 'F') n = fixed[fi++];
            if (f[k].kind == 'V') n = static_cast<size_t>(rng.below(3));
            for (size_t t = 0; t < n; ++t) m.f[k].push_back(G::project_field(k, domain_value(k)));
        }
        fix_counts(m);
        return m;
    }

    static void fix_counts(MElem& m)
    {
        const auto& f = Cfg::fields();
        for (size_t k = 0; k + 1 < NF; ++k)
            if (f[k].kind == 'C') m.f[k] = {static_cast<int64_t>(m.f[k + 1].size())};
    }

    // a variant that differs from e in exactly one item, or is prefix-related in one varying span
    MElem variant(const MElem& e, bool& nontrivial)
    {
        MElem v = e;
        const auto& f = Cfg::fields();
        std::vector<size_t> cand;
        for (size_t k = 0; k < NF; ++k)
            if (f[k].kind != 'C') cand.push_back(k);
        const size_t k = cand[rng.below(cand.size())];
        if (f[k].kind == 'V' && rng.chance(1, 2))
        {
            if (!v.f[k].empty() && rng.chance(1, 2))
                v.f[k].pop_back();  // strict prefix
            else
                v.f[k].push_back(G::project_field(k, domain_value(k)));
            nontrivial = true;
        }
        else if (!v.f[k].empty())
        {
            const size_t t = rng.below(v.f[k].size());
            const int64_t old = v.f[k][t];
            for (int tries = 0; tries < 8 && v.f[k][t] == old; ++tries) v.f[k][t] = G::project_field(k, domain_value(k));
            nontrivial = nontrivial || v.f[k][t] != old;
        }
        fix_counts(v);
        return v;
    }

    // Lists whose fields are all one byte wide and unaligned: the bytes of an element, cut according to OTHER fixed sizes, may
    // again be a well-formed element (the count bytes have to fall into place). Such a twin has exactly the same bytes in
    // memory and different field sizes: bytewise comparison alone calls them equal.
    static bool all_single_bytes()
    {
        for (auto& f : Cfg::fields())
            if (f.size != 1 || f.align != 1 || std::string(f.tname) == "bool") return false;
        return true;
    }

    static bool recut(const MElem& e, const std::vector<size_t>& fixed2, MElem& out)
    {
        std::vector<int64_t> bytes;
        for (auto& fl : e.f)
            for (auto x : fl) bytes.push_back(x & 0xFF);
        const auto& f = Cfg::fields();
        out = MElem{};
        out.f.resize(NF);
        size_t pos = 0, fi = 0, cnt = 0;
        for (size_t k = 0; k < NF; ++k)
        {
            size_t n = 1;
            if (f[k].kind == 'F') n = fixed2[fi++];
            if (f[k].kind == 'V') n = cnt;
            if (pos + n > bytes.size()) return false;
            for (size_t t = 0; t < n; ++t) out.f[k].push_back(G::project_field(k, bytes[pos + t]));
            if (f[k].kind == 'C')
            {
                if (out.f[k][0] < 0) return false;  // a signed count type
                cnt = static_cast<size_t>(out.f[k][0]);
            }
            pos += n;
        }
        return pos == bytes.size();
    }

    static size_t payload(const std::vector<MElem>& es)
    {
        size_t p = 0;
        const auto& f = Cfg::fields();
        for (auto& e : es)
            for (size_t k = 0; k < NF; ++k)
                if (f[k].kind == 'V') p += f[k].size * e.f[k].size();
        return p;
    }

    template <class V>
    V build(const std::vector<MElem>& es, const std::vector<size_t>& fixed, size_t extra_cap, size_t extra_bytes, int arena, int junk)
    {
        ledger().junk = junk;
        return build_with<V>(es, fixed, extra_cap, extra_bytes, typename V::allocator_type{arena});
    }

    template <class V>
    V build_with(const std::vector<MElem>& es, const std::vector<size_t>& fixed, size_t extra_cap, size_t extra_bytes, const typename V::allocator_type& alloc)
    {
        const size_t n = es.size() + extra_cap;
        const size_t bytes = payload(es) + extra_bytes;
        auto make = [&]() -> V
        {
            if constexpr (Cfg::N_FIXED != 0)
            {
                std::array<size_t, Cfg::N_FIXED> fs{};
                std::copy(fixed.begin(), fixed.end(), fs.begin());
                if constexpr (Cfg::N_VARYING != 0)
                    return V(n, bytes, fs, alloc);
                else
                    return V(n, fs, alloc);
            }
            else if constexpr (Cfg::N_VARYING != 0)
                return V(n, bytes, alloc);
            else
                return V(n, alloc);
        };
        V v = make();
        for (auto& e : es) G::emplace_back(v, e);
        return v;
    }

    void viol(const char* props, const char* kind, const std::string& d) { violation(props, kind, d, "compare", "pool"); }

    void run_case(uint64_t seed, int64_t cno)
    {
        rng = Rng(mix(seed, static_cast<uint64_t>(cno) + 0xC0FFEE));
        case_no = cno;
        out().viol_in_case = 0;
        out().soft_in_case = 0;
        trace.clear();
        hash = 0;
        set_ctx(cno, 0, "build_pool", "pool", "C13,C14,C02", "");
        std::vector<size_t> fixed;
        for (size_t i = 0; i < Cfg::N_FIXED; ++i) fixed.push_back(static_cast<size_t>(rng.below(4)));
        // ---- logical elements
        const size_t n_elems = 7;
        std::vector<MElem> es;
        bool nontrivial = false;
        es.push_back(random_elem(fixed));
        es.push_back(es[0]);  // an equal pair
        es.push_back(variant(es[0], nontrivial));
        es.push_back(variant(es[0], nontrivial));
        es.push_back(random_elem(fixed));
        es.push_back(variant(es[4], nontrivial));
        while (es.size() < n_elems) es.push_back(random_elem(fixed));
        // Lists with FixedSize parameters: four more logical elements whose fixed sizes differ in one parameter (0, shorter,
        // longer), two of them prefix-related to pool elements. They live in vectors of their own (a vector has one set of
        // fixed sizes) and are compared with everything else: equal field sizes are part of equality, and the relational
        // operators have to stay consistent between operands of different sizes.
        std::vector<size_t> fixed2 = fixed;
        size_t n_other = 0;
        if constexpr (Cfg::N_FIXED != 0)
        {
            const size_t which = static_cast<size_t>(rng.below(Cfg::N_FIXED));
            size_t now = fixed[which];
            for (int tries = 0; tries < 16 && now == fixed[which]; ++tries)
                now = rng.chance(1, 3) ? 0 : rng.chance(1, 2) ? fixed[which] + 1 : (fixed[which] ? fixed[which] - 1 : 2);
            fixed2[which] = now;
            // index of that parameter among all fields
            size_t field = 0, fi = 0;
            for (size_t k = 0; k < NF; ++k)
                if (Cfg::fields()[k].kind == 'F' && fi++ == which) field = k;
            auto resized = [&](const MElem& e)
            {
                MElem r = e;
                while (r.f[field].size() > now) r.f[field].pop_back();
                while (r.f[field].size() < now) r.f[field].push_back(G::project_field(field, domain_value(field)));
                return r;
            };
            es.push_back(resized(es[0]));
            es.push_back(resized(es[4]));
            es.push_back(variant(es[n_elems], nontrivial));
            es.push_back(random_elem(fixed2));
            if (all_single_bytes())
                for (size_t base : {size_t{0}, size_t{1}, size_t{2}, size_t{5}})
                {
                    MElem twin;
                    if (recut(es[base], fixed2, twin))
                    {
                        es.back() = twin;  // same bytes as es[base], other field sizes
                        ++byte_twins;
                        break;
                    }
                }
            n_other = 4;
            nontrivial = true;
        }
        const size_t n_same = n_elems;
        (void)n_other;
        for (auto& e : es)
        {
            trace.push_back(elem_str(e));
            hash = mix(hash, std::hash<std::string>{}(elem_str(e)));
        }
        if (nontrivial) ++nontrivial_pairs;
        const int j1 = static_cast<int>((seed + static_cast<uint64_t>(cno)) % 4), j2 = (j1 + 1 + static_cast<int>(cno % 3)) % 4, j3 = (j2 + 1) % 4;
        // ---- physical representations
        const std::vector<MElem> es_same(es.begin(), es.begin() + static_cast<std::ptrdiff_t>(n_same)), es_other(es.begin() + static_cast<std::ptrdiff_t>(n_same), es.end());
        VecA a1s = build<VecA>(es_same, fixed, 0, 0, 1, j1);
        VecA a2s = build<VecA>(es_same, fixed, 3, 40, 2, j2);
        VecB bs = build<VecB>(es_same, fixed, 1, 8, 0, j3);
        VecA a1o = build<VecA>(es_other, fixed2, 1, 16, 2, j3);
        VecA a2o = build<VecA>(es_other, fixed2, 0, 0, 1, j1);
        VecB bo = build<VecB>(es_other, fixed2, 2, 0, 0, j2);
        // element i of the pool in each physical representation
        struct View
        {
            VecA& same;
            VecA& other;
            size_t n_same;
            auto operator[](size_t i) { return i < n_same ? same[i] : other[i - n_same]; }
            auto operator[](size_t i) const { return i < n_same ? std::as_const(same)[i] : std::as_const(other)[i - n_same]; }
        };
        struct ViewB
        {
            VecB& same;
            VecB& other;
            size_t n_same;
            auto operator[](size_t i) { return i < n_same ? same[i] : other[i - n_same]; }
            auto operator[](size_t i) const { return i < n_same ? std::as_const(same)[i] : std::as_const(other)[i - n_same]; }
        };
        View a1{a1s, a1o, n_same}, a2{a2s, a2o, n_same};
        ViewB b{bs, bo, n_same};
        std::vector<ElemA> ea;
        std::vector<ElemB> eb;
        ea.reserve(es.size());
        eb.reserve(es.size());
        ledger().junk = j2;
        for (size_t i = 0; i < es.size(); ++i) ea.emplace_back(std::as_const(a1)[i], typename ElemA::allocator_type{(int(i) % 2) + 1});
        ledger().junk = j1;
        for (size_t i = 0; i < es.size(); ++i) eb.emplace_back(std::as_const(b)[i]);
        const View& ca1 = a1;
        const View& ca2 = a2;
        const ViewB& cb = b;
        // ---- element level: all ordered pairs in every operand-kind combination
        const size_t N = es.size();
        std::vector<unsigned> R(N * N, 0);
        set_ctx(cno, 1, "compare_elements", "pool", "C13,C14,C02", "");
        for (size_t i = 0; i < N; ++i)
            for (size_t j = 0; j < N; ++j)
            {
                unsigned ms[16];
                const char* names[16];
                int k = 0;
                auto add = [&](unsigned m, const char* nm) { ms[k] = m; names[k] = nm; ++k; };
                add(cmp6(a1[i], a1[j]), "ref x ref");
                add(cmp6(a1[i], ca2[j]), "ref x const_ref(other capacity/junk)");
                add(cmp6(ca2[i], a1[j]), "const_ref x ref");
                add(cmp6(ca1[i], cb[j]), "const_ref x const_ref(other allocator type)");
                add(cmp6(b[i], a2[j]), "ref(other allocator type) x ref");
                add(cmp6(ea[i], ea[j]), "element x element");
                add(cmp6(ea[i], a2[j]), "element x ref");
                add(cmp6(a2[i], ea[j]), "ref x element");
                add(cmp6(ea[i], cb[j]), "element x const_ref(other allocator type)");
                add(cmp6(cb[i], ea[j]), "const_ref x element");
                add(cmp6(eb[i], eb[j]), "element(other allocator type) x element");
                add(cmp6(eb[i], a1[j]), "element(other allocator type) x ref");
                add(cmp6(ca1[i], eb[j]), "const_ref x element(other allocator type)");
                for (int t = 1; t < k; ++t)
                    if (ms[t] != ms[0])
                    {
                        const unsigned d = ms[t] ^ ms[0];
                        viol((d & (EQ | NE)) ? ((d & ~(EQ | NE)) ? "C13,C14" : "C13") : "C14", "operand_kind_dependence",
                             fmt("%s gives %02x but %s gives %02x for %s vs %s (bits eq ne lt le gt ge)", names[0], ms[0], names[t], ms[t], elem_str(es[i]).c_str(), elem_str(es[j]).c_str()));
                        break;
                    }
                R[i * N + j] = ms[0];
                ++pairs_checked;
            }
        auto r = [&](size_t i, size_t j) { return R[i * N + j]; };
        for (size_t i = 0; i < N && !out().viol_in_case; ++i)
            for (size_t j = 0; j < N; ++j)
            {
                const unsigned m = r(i, j), mr = r(j, i);
                const bool meq = model_eq(es[i], es[j]);
                const std::string pr = elem_str(es[i]) + " vs " + elem_str(es[j]);
                if (bool(m & EQ) != meq) viol("C13", "equality_vs_model", fmt("operator== is %d, field-wise equality is %d for %s", int(bool(m & EQ)), int(meq), pr.c_str()));
                if (bool(m & NE) == bool(m & EQ)) viol("C13", "ne_not_negation", fmt("== is %d and != is %d for %s", int(bool(m & EQ)), int(bool(m & NE)), pr.c_str()));
                if (bool(m & EQ) != bool(mr & EQ)) viol("C13", "equality_not_symmetric", fmt("a==b is %d, b==a is %d for %s", int(bool(m & EQ)), int(bool(mr & EQ)), pr.c_str()));
                if (bool(m & GT) != bool(mr & LT)) viol("C14", "gt_identity", fmt("a>b is %d but b<a is %d for %s", int(bool(m & GT)), int(bool(mr & LT)), pr.c_str()));
                if (bool(m & LE) != !bool(mr & LT)) viol("C14", "le_identity", fmt("a<=b is %d but b<a is %d for %s", int(bool(m & LE)), int(bool(mr & LT)), pr.c_str()));
                if (bool(m & GE) != !bool(m & LT)) viol("C14", "ge_identity", fmt("a>=b is %d but a<b is %d for %s", int(bool(m & GE)), int(bool(m & LT)), pr.c_str()));
                if ((m & LT) && (mr & LT)) viol("C14", "lt_not_asymmetric", fmt("a<b and b<a for %s", pr.c_str()));
                if ((m & LT) && !(m & NE)) viol("C14", "lt_implies_ne", fmt("a<b but a==b for %s", pr.c_str()));
                if ((m & EQ) && ((m & LT) || (mr & LT))) viol("C14", "eq_excludes_lt", fmt("a==b but a<b or b<a for %s", pr.c_str()));
                if (i == j && (m & LT)) viol("C14", "lt_not_irreflexive", fmt("a<a for %s", elem_str(es[i]).c_str()));
            }
        // a NaN field makes the value type's own < no strict weak order: the order axioms are not required of such operands
        std::vector<bool> nan(N, false);
        for (size_t i = 0; i < N; ++i)
            for (auto& fld : es[i].f)
                for (auto v : fld)
                    if (v == CODE_NAN) nan[i] = true;
        for (size_t i = 0; i < N && !out().viol_in_case; ++i)
            for (size_t j = 0; j < N; ++j)
                for (size_t k = 0; k < N; ++k)
                {
                    if (nan[i] || nan[j] || nan[k]) continue;
                    ++triples_checked;
                    if ((r(i, j) & LT) && (r(j, k) & LT) && !(r(i, k) & LT))
                        viol("C14", "lt_not_transitive", fmt("a<b and b<c but not a<c for %s, %s, %s", elem_str(es[i]).c_str(), elem_str(es[j]).c_str(), elem_str(es[k]).c_str()));
                }
        // ---- vector level
        set_ctx(cno, 2, "compare_vectors", "pool", "C13,C14,C02", "");
        std::vector<std::vector<size_t>> lv = {{}, {0}, {0, 2}, {0, 2, 4}, {1}, {1, 2}, {2}, {0, 3}, {4, 5}, {5}};
        if (n_other) lv.insert(lv.end(), {{n_same}, {n_same, n_same + 2}, {n_same + 1}, {n_same + 3, n_same}, {n_same + 3}});
        const size_t L = lv.size();
        std::vector<VecA> va1, va2;
        std::vector<VecB> vb;
        va1.reserve(L);
        va2.reserve(L);
        vb.reserve(L);
        for (size_t v = 0; v < L; ++v)
        {
            std::vector<MElem> seq;
            for (size_t idx : lv[v]) seq.push_back(es[idx]);
            const auto& fx = (!lv[v].empty() && lv[v][0] >= n_same) ? fixed2 : fixed;
            va1.push_back(build<VecA>(seq, fx, 0, 0, 1, j2));
            va2.push_back(build<VecA>(seq, fx, 2 + v % 3, 24, 2, j3));
            vb.push_back(build<VecB>(seq, fx, v % 2, 0, 0, j1));
        }
        // a default-constructed vector is one more representation of the logical empty vector (C18: comparison is well
        // defined on it)
        const VecA dflt_a{};
        const VecB dflt_b{};
        // a capacity-0 vector and a vector whose block starts at the same address (bump arena): still two different vectors
        for (size_t y = 0; y < L && !out().viol_in_case; ++y)
        {
            std::vector<MElem> seq;
            for (size_t idx : lv[y]) seq.push_back(es[idx]);
            const auto& fx = (!lv[y].empty() && lv[y][0] >= n_same) ? fixed2 : fixed;
            auto bump = std::make_unique<Bump>();
            const VecC e0 = build_with<VecC>({}, fx, 0, 0, BumpAlloc<std::byte>{bump.get()});
            const VecC f = build_with<VecC>(seq, fx, 0, 0, BumpAlloc<std::byte>{bump.get()});
            if (e0.data_begin() == f.data_begin()) ++shared_address_pairs;
            const unsigned want_ef = cmp6(std::as_const(va1[0]), std::as_const(va1[y])), want_fe = cmp6(std::as_const(va1[y]), std::as_const(va1[0]));
            const unsigned got_ef = cmp6(e0, f), got_fe = cmp6(f, e0);
            if (got_ef != want_ef || got_fe != want_fe)
                viol("C13,C14,C18", "vector_representation_dependence", fmt("capacity-0 vector vs vector %zu allocated right behind it (same block address: %d): %02x / %02x, expected %02x / %02x", y, int(e0.data_begin() == f.data_begin()), got_ef, got_fe, want_ef, want_fe));
        }
        std::vector<unsigned> VR(L * L, 0);
        for (size_t x = 0; x < L; ++x)
            for (size_t y = 0; y < L; ++y)
            {
                ++vec_pairs;
                if (lv[x].empty())
                {
                    const unsigned ref0 = cmp6(std::as_const(va1[x]), std::as_const(va1[y]));
                    const unsigned d1 = cmp6(dflt_a, va2[y]), d2 = cmp6(dflt_b, va1[y]), d3 = cmp6(dflt_a, vb[y]);
                    if (d1 != ref0 || d2 != ref0 || d3 != ref0)
                        viol("C13,C14,C18", "vector_representation_dependence", fmt("default-constructed vector vs vector %zu: %02x / %02x / %02x, empty constructed vector gives %02x", y, d1, d2, d3, ref0));
                }
                if (lv[y].empty())
                {
                    const unsigned ref0 = cmp6(std::as_const(va1[x]), std::as_const(va1[y]));
                    const unsigned d1 = cmp6(va2[x], dflt_a), d2 = cmp6(va1[x], dflt_b), d3 = cmp6(vb[x], dflt_a);
                    if (d1 != ref0 || d2 != ref0 || d3 != ref0)
                        viol("C13,C14,C18", "vector_representation_dependence", fmt("vector %zu vs default-constructed vector: %02x / %02x / %02x, empty constructed vector gives %02x", x, d1, d2, d3, ref0));
                }
                const unsigned m0 = cmp6(std::as_const(va1[x]), std::as_const(va1[y]));
                const unsigned m1 = cmp6(va1[x], va2[y]);
                const unsigned m2 = cmp6(va2[x], vb[y]);
                const unsigned m3 = cmp6(vb[x], va1[y]);
                const unsigned m4 = cmp6(vb[x], vb[y]);
                VR[x * L + y] = m0;
                if (m1 != m0 || m2 != m0 || m3 != m0 || m4 != m0)
                {
                    const unsigned d = (m1 ^ m0) | (m2 ^ m0) | (m3 ^ m0) | (m4 ^ m0);
                    viol((d & (EQ | NE)) ? ((d & ~(EQ | NE)) ? "C13,C14" : "C13") : "C14", "vector_representation_dependence",
                         fmt("vectors %zu vs %zu: same capacity %02x, other capacity/junk/arena %02x, other allocator type %02x / %02x / %02x", x, y, m0, m1, m2, m3, m4));
                }
            }
        for (size_t x = 0; x < L && !out().viol_in_case; ++x)
            for (size_t y = 0; y < L; ++y)
            {
                const unsigned m = VR[x * L + y], mr = VR[y * L + x];
                bool meq = lv[x].size() == lv[y].size();
                for (size_t t = 0; meq && t < lv[x].size(); ++t) meq = model_eq(es[lv[x][t]], es[lv[y][t]]);
                // lexicographical comparison of the element sequences under the observed element-level <
                bool mlt = false;
                {
                    size_t t = 0;
                    for (;; ++t)
                    {
                        if (t == lv[y].size()) { mlt = false; break; }
                        if (t == lv[x].size()) { mlt = true; break; }
                        if (r(lv[x][t], lv[y][t]) & LT) { mlt = true; break; }
                        if (r(lv[y][t], lv[x][t]) & LT) { mlt = false; break; }
                    }
                }
                const std::string pr = fmt("vector %s vs vector %s of pool elements", jarr_num(lv[x]).c_str(), jarr_num(lv[y]).c_str());
                if (bool(m & EQ) != meq) viol("C13", "vector_equality_vs_model", fmt("operator== is %d, element-wise equality is %d for %s", int(bool(m & EQ)), int(meq), pr.c_str()));
                if (bool(m & NE) == bool(m & EQ)) viol("C13", "ne_not_negation", fmt("vector == is %d and != is %d for %s", int(bool(m & EQ)), int(bool(m & NE)), pr.c_str()));
                if (bool(m & EQ) != bool(mr & EQ)) viol("C13", "equality_not_symmetric", fmt("vector a==b is %d, b==a is %d for %s", int(bool(m & EQ)), int(bool(mr & EQ)), pr.c_str()));
                if (bool(m & LT) != mlt) viol("C14", "vector_lt_not_lexicographical", fmt("operator< is %d, lexicographical comparison under the element-level < is %d for %s", int(bool(m & LT)), int(mlt), pr.c_str()));
                if (bool(m & GT) != bool(mr & LT)) viol("C14", "gt_identity", fmt("vector a>b is %d but b<a is %d for %s", int(bool(m & GT)), int(bool(mr & LT)), pr.c_str()));
                if (bool(m & LE) != !bool(mr & LT)) viol("C14", "le_identity", fmt("vector a<=b is %d but b<a is %d for %s", int(bool(m & LE)), int(bool(mr & LT)), pr.c_str()));
                if (bool(m & GE) != !bool(m & LT)) viol("C14", "ge_identity", fmt("vector a>=b is %d but a<b is %d for %s", int(bool(m & GE)), int(bool(m & LT)), pr.c_str()));
                if ((m & LT) && (mr & LT)) viol("C14", "lt_not_asymmetric", fmt("vector a<b and b<a for %s", pr.c_str()));
                if ((m & LT) && !(m & NE)) viol("C14", "lt_implies_ne", fmt("vector a<b but a==b for %s", pr.c_str()));
                if ((m & EQ) && ((m & LT) || (mr & LT))) viol("C14", "eq_excludes_lt", fmt("vector a==b but a<b or b<a for %s", pr.c_str()));
            }
        for (size_t x = 0; x < L && !out().viol_in_case; ++x)
            for (size_t y = 0; y < L; ++y)
                for (size_t z = 0; z < L; ++z)
                {
                    ++triples_checked;
                    bool any_nan = false;
                    for (auto* seq : {&lv[x], &lv[y], &lv[z]})
                        for (size_t idx : *seq) any_nan = any_nan || nan[idx];
                    if (any_nan) continue;
                    if ((VR[x * L + y] & LT) && (VR[y * L + z] & LT) && !(VR[x * L + z] & LT))
                        violation("C14", "lt_not_transitive", fmt("vectors %s < %s < %s but not first < third", jarr_num(lv[x]).c_str(), jarr_num(lv[y]).c_str(), jarr_num(lv[z]).c_str()), "compare", "pool", true);
                }
        set_ctx(cno, 3, "teardown", "pool", "C07", "");
        ledger().check_all_canaries();
    }
};
}  // namespace

int main(int argc, char** argv)
{
    using Cfg = VF_CFG;
    using K = VF_KIND;
    Args args(argc, argv);
    open_out(args);
    ledger().release_hook = registry_release_hook;
    const uint64_t seed = static_cast<uint64_t>(args.num("seed", 1));
    const int64_t from = args.num("from", 0), to = args.num("to", 10);
    emit(J().kv("t", "hello").kv("engine", "cmp").kv("cfg", VF_CFG_STR).kv("kind", K::name()).kv("category", Cfg::category()).str());
    Engine<Cfg, K> e;
    for (int64_t c = from; c < to; ++c)
    {
        emit(J().kv("t", "case_begin").kv("case", c).str());
        arm_case_watchdog(40);
        const uint64_t nt_before = e.nontrivial_pairs;
        e.run_case(seed, c);
        const bool nt = e.nontrivial_pairs != nt_before;
        registry().reset();
        const int v = out().viol_in_case;
        if (v == 0) ledger().reset(); else ledger().blocks.clear();
        J j;
        j.kv("t", "case_end").kv("case", c).kv("steps", 3).kv("viol", v).kv("hash", fmt("%016" PRIx64, e.hash)).raw("nt", fmt("{\"C13\":%d,\"C14\":%d}", int(nt), int(nt)));
        if (c - from < 2) j.raw("trace", jarr_str(e.trace));
        emit(j.str());
        if (v != 0 && c + 1 < to)
        {
            emit(J().kv("t", "bail").kv("next", c + 1).str());
            break;
        }
    }
    Counters cn;
    cn.add("element_pairs", e.pairs_checked);
    cn.add("vector_pairs", e.vec_pairs);
    cn.add("triples", e.triples_checked);
    cn.add("empty_vs_vector_at_same_block_address", e.shared_address_pairs);
    cn.add("pools_with_a_byte_identical_twin_of_other_field_sizes", e.byte_twins);
    cn.add("operator_evaluations", e.comparisons * 6);
    emit(J().kv("t", "summary").raw("ops", cn.json()).raw("counters", counters().json()).kv("steps", e.pairs_checked).kv("avoided", 0).raw("prestate_op", "[]").kv("objects_constructed", registry().constructed).kv("objects_destroyed", registry().destroyed).kv("alloc_events", ledger().alloc_events).kv("dealloc_events", ledger().dealloc_events).str());
    return 0;
}
