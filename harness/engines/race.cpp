// race engine (C19): many threads call const member functions on the same vectors / elements without any
// synchronisation between operations, while other threads mutate private copies of those vectors. Built with
// ThreadSanitizer (g++ and clang++): the verdict is the absence of data-race reports with a cntgs:: frame.
// The ledger and the object registry are not used here (they are not thread-safe); the allocator is a plain stateful one.
#ifndef VF_NO_LIBCALL
#error "the race engine must be built with VF_NO_LIBCALL (the ledger is not thread-safe)"
#endif
#include "vf/config.hpp"

#include <atomic>
#include <optional>
#include <thread>

using namespace vf;

namespace
{
// A memory resource with deliberately unsynchronised bookkeeping (like std::pmr::monotonic_buffer_resource): using one
// arena from two threads is a data race. Default-constructed allocators and select_on_container_copy_construction use the
// calling thread's own arena (like the pmr default resource), so copies made by a thread never touch the arena of the
// shared vector they were copied from.
struct Arena
{
    uint64_t allocations = 0;
    uint64_t bytes = 0;
};

inline Arena& thread_arena()
{
    thread_local Arena a;
    return a;
}

template <class T>
struct TsAlloc
{
    using value_type = T;
    Arena* arena;
    TsAlloc() : arena(&thread_arena()) {}
    explicit TsAlloc(Arena& a) : arena(&a) {}
    template <class U>
    TsAlloc(const TsAlloc<U>& o) noexcept : arena(o.arena)
    {
    }
    T* allocate(std::size_t n)
    {
        ++arena->allocations;
        arena->bytes += n * sizeof(T);
        return static_cast<T*>(::operator new(n * sizeof(T) + 1, std::align_val_t(alignof(T) < 16 ? 16 : alignof(T))));
    }
    void deallocate(T* p, std::size_t n) noexcept
    {
        ++arena->allocations;
        arena->bytes -= n * sizeof(T);
        ::operator delete(p, std::align_val_t(alignof(T) < 16 ? 16 : alignof(T)));
    }
    TsAlloc select_on_container_copy_construction() const { return TsAlloc{}; }
    template <class U>
    friend bool operator==(const TsAlloc& a, const TsAlloc<U>& b) noexcept
    {
        return a.arena == b.arena;
    }
    template <class U>
    friend bool operator!=(const TsAlloc& a, const TsAlloc<U>& b) noexcept
    {
        return a.arena != b.arena;
    }
};

enum ROp
{
    R_ELEMENT_ACCESS,
    R_ITERATE,
    R_QUERIES,
    R_COMPARE_VECTORS,
    R_COMPARE_ELEMENTS,
    R_COPY_VECTOR,
    R_MAKE_ELEMENT,
    R_ELEMENT_READ,
    W_MUTATE_PRIVATE_COPY,
    R_COUNT
};
const char* ROP_NAME[R_COUNT] = {"element_access", "iterate", "size_capacity_data_queries", "compare_vectors", "compare_elements", "copy_vector", "element_from_reference", "read_shared_element",
                                 "mutate_private_copy"};

std::atomic<int> g_active[R_COUNT];
std::atomic<uint64_t> g_overlap[R_COUNT][R_COUNT];
std::atomic<uint64_t> g_ops[R_COUNT];
std::atomic<bool> g_go{false};
std::atomic<uint64_t> g_sink{0};

struct OpScope
{
    int op;
    explicit OpScope(int o) : op(o)
    {
        // relaxed atomics: no happens-before edge that could hide a race from the detector
        g_active[op].fetch_add(1, std::memory_order_relaxed);
        for (int k = 0; k < R_COUNT; ++k)
            if (g_active[k].load(std::memory_order_relaxed) > (k == op ? 1 : 0)) g_overlap[op][k].fetch_add(1, std::memory_order_relaxed);
        g_ops[op].fetch_add(1, std::memory_order_relaxed);
    }
    ~OpScope() { g_active[op].fetch_sub(1, std::memory_order_relaxed); }
};

template <class Cfg>
struct Engine
{
    using Alloc = TsAlloc<std::byte>;
    using Vec = typename Cfg::template Vec<Alloc>;
    using E = typename Vec::value_type;
    using G = Glue<Cfg>;
    static constexpr size_t NF = Cfg::NF;

    static uint64_t digest_model(const MElem& e)
    {
        uint64_t d = 0;
        for (auto& fl : e.f)
            for (auto x : fl) d = d * 31 + static_cast<uint64_t>(x);
        return d;
    }

    static Vec make(Rng& rng, size_t n, size_t extra_cap, const std::vector<size_t>& fixed, Arena& arena, uint64_t& next_id, std::vector<MElem>* model = nullptr)
    {
        std::vector<MElem> es;
        size_t payload = 0;
        const auto& f = Cfg::fields();
        for (size_t i = 0; i < n; ++i)
        {
            std::vector<size_t> counts;
            for (size_t k = 0; k < Cfg::N_VARYING; ++k) counts.push_back(static_cast<size_t>(rng.below(4)));
            es.push_back(G::make_model_elem(next_id++, fixed, counts));
            for (size_t k = 0; k < NF; ++k)
                if (f[k].kind == 'V') payload += f[k].size * es.back().f[k].size();
        }
        Alloc alloc{arena};
        const size_t cap = n + extra_cap, bytes = payload + extra_cap * 64;
        auto mk = [&]() -> Vec
        {
            if constexpr (Cfg::N_FIXED != 0)
            {
                std::array<size_t, Cfg::N_FIXED> fs{};
                std::copy(fixed.begin(), fixed.end(), fs.begin());
                if constexpr (Cfg::N_VARYING != 0)
                    return Vec(cap, bytes, fs, alloc);
                else
                    return Vec(cap, fs, alloc);
            }
            else if constexpr (Cfg::N_VARYING != 0)
                return Vec(cap, bytes, alloc);
            else
                return Vec(cap, alloc);
        };
        Vec v = mk();
        for (auto& e : es) G::emplace_back(v, e);
        if (model) *model = es;
        return v;
    }

    template <class R>
    static uint64_t digest(const R& r)
    {
        uint64_t d = 0;
        const MElem e = G::read(r);
        for (auto& fl : e.f)
            for (auto x : fl) d = d * 31 + static_cast<uint64_t>(x);
        return d;
    }

    static void reader(const Vec& a, const Vec& b, const E& shared_elem, int tid, int rounds, uint64_t seed)
    {
        while (!g_go.load(std::memory_order_acquire)) {}
        Rng rng(mix(seed, static_cast<uint64_t>(tid)));
        uint64_t sink = 0;
        for (int r = 0; r < rounds; ++r)
        {
            const int op = static_cast<int>(rng.below(W_MUTATE_PRIVATE_COPY));
            const Vec& v = rng.chance(1, 2) ? a : b;
            OpScope scope(op);
            switch (op)
            {
                case R_ELEMENT_ACCESS:
                    if (!v.empty())
                    {
                        sink += digest(v[rng.below(v.size())]);
                        sink += digest(v.front()) + digest(v.back());
                    }
                    break;
                case R_ITERATE:
                    for (auto&& ref : v) sink += digest(ref);
                    for (auto it = v.cbegin(); it != v.cend(); ++it) sink += reinterpret_cast<uintptr_t>(it.data()) & 1;
                    break;
                case R_QUERIES:
                    sink += v.size() + v.capacity() + v.empty() + v.memory_consumption() + reinterpret_cast<uintptr_t>(v.data_begin()) % 3 + reinterpret_cast<uintptr_t>(v.data_end()) % 3 +
                            static_cast<uint64_t>(v.get_allocator().arena != nullptr) + (v.end() - v.begin());
                    if constexpr (Cfg::N_FIXED != 0) sink += v.template get_fixed_size<0>();
                    break;
                case R_COMPARE_VECTORS: sink += (a == b) + (a != b) * 2 + (a < b) * 4 + (a <= b) * 8 + (a > b) * 16 + (a >= b) * 32 + (v == v); break;
                case R_COMPARE_ELEMENTS:
                    if (a.size() >= 1 && b.size() >= 1)
                    {
                        const auto i = rng.below(a.size()), j = rng.below(b.size());
                        sink += (a[i] == b[j]) + (a[i] < b[j]) * 2 + (shared_elem == a[i]) * 4 + (a[i] >= shared_elem) * 8 + (shared_elem != b[j]) * 16;
                    }
                    break;
                case R_COPY_VECTOR:
                    if constexpr (Cfg::ALL_COPYABLE)
                    {
                        Vec c(v);
                        sink += c.size() + (c == v);
                    }
                    break;
                case R_MAKE_ELEMENT:
                    if constexpr (Cfg::ALL_COPYABLE)
                    {
                        if (!v.empty())
                        {
                            E e(v[rng.below(v.size())]);
                            sink += digest(e);
                            E e2(shared_elem);
                            sink += (e2 == shared_elem);
                            // copy ASSIGNMENT from shared const objects into thread-private ones (same and other size, and
                            // into a moved-from target) only reads the source
                            e = shared_elem;
                            sink += (e == shared_elem);
                            E e3(std::move(e2));
                            e2 = shared_elem;
                            e3 = std::as_const(e);  // element = element of another size (element = reference needs equal sizes)
                            sink += digest(e2) + digest(e3);
                        }
                    }
                    break;
                case R_ELEMENT_READ: sink += digest(shared_elem) + static_cast<uint64_t>(shared_elem.get_allocator().arena != nullptr); break;
            }
        }
        g_sink.fetch_add(sink, std::memory_order_relaxed);
    }

    // distinct vectors never interfere, even when they were copied from one another
    static void writer(const Vec& a, const Vec& b, int tid, int rounds, uint64_t seed)
    {
        while (!g_go.load(std::memory_order_acquire)) {}
        Rng rng(mix(seed, 1000 + static_cast<uint64_t>(tid)));
        uint64_t sink = 0;
        if constexpr (Cfg::ALL_COPYABLE)
        {
            Vec mine(rng.chance(1, 2) ? a : b);
            uint64_t next_id = 100000 + static_cast<uint64_t>(tid) * 10000;
            std::vector<size_t> fixed;
            if constexpr (Cfg::N_FIXED != 0)
            {
                for_each_index<Cfg::N_FIXED>([&](auto I) { fixed.push_back(mine.template get_fixed_size<I>()); });
            }
            for (int r = 0; r < rounds; ++r)
            {
                OpScope scope(W_MUTATE_PRIVATE_COPY);
                const int op = static_cast<int>(rng.below(7));
                switch (op)
                {
                    case 0:
                        if (!mine.empty()) mine.pop_back();
                        break;
                    case 1:
                        if (!mine.empty())
                        {
                            const auto idx = rng.below(mine.size());
                            const MElem e = G::read(std::as_const(mine)[idx]);
                            for (size_t k = 0; k < NF; ++k)
                                if (Cfg::fields()[k].kind != 'C' && !e.f[k].empty())
                                {
                                    G::set_item(mine[idx], k, 0, static_cast<int64_t>(next_id++));
                                    break;
                                }
                        }
                        break;
                    case 2: mine.clear(); break;
                    case 3:
                        if (mine.size() < mine.capacity())
                        {
                            // zero-length spans always fit the byte budget
                            MElem e = G::make_model_elem(next_id++, fixed, std::vector<size_t>(Cfg::N_VARYING, 0));
                            G::emplace_back(mine, e);
                        }
                        break;
                    case 4:
                    {
                        Vec again(rng.chance(1, 2) ? a : b);  // re-copy from the shared vectors
                        mine = std::move(again);
                        break;
                    }
                    case 5:
                        if constexpr (Cfg::N_VARYING != 0)
                            mine.reserve(mine.capacity() + 1, 64 * (mine.capacity() + 1) + 512);
                        else
                            mine.reserve(mine.capacity() + 1);
                        break;
                    default: mine = a; break;
                }
                sink += mine.size();
            }
        }
        g_sink.fetch_add(sink, std::memory_order_relaxed);
    }

    static void run_case(uint64_t seed, int64_t cno, int threads, int rounds)
    {
        Rng rng(mix(seed, static_cast<uint64_t>(cno) + 0xACE));
        uint64_t next_id = 1;
        std::vector<size_t> fixed;
        for (size_t i = 0; i < Cfg::N_FIXED; ++i) fixed.push_back(1 + static_cast<size_t>(rng.below(3)));
        // the shared objects live in arenas that only the main thread uses (before the threads start and after they ended)
        Arena arena_a, arena_b, arena_e, arena_s;
        std::vector<MElem> model_a, model_b, model_s;
        const size_t a_n = 2 + static_cast<size_t>(rng.below(4)), a_extra = static_cast<size_t>(rng.below(3));
        const Vec a = make(rng, a_n, a_extra, fixed, arena_a, next_id, &model_a);
        const size_t a_capacity = a_n + a_extra;
        uint64_t id2 = rng.chance(1, 2) ? 1 : next_id;
        const size_t b_n = static_cast<size_t>(rng.below(5));
        const Vec b = make(rng, b_n, 1, fixed, arena_b, id2, &model_b);
        const size_t b_capacity = b_n + 1;
        std::optional<E> shared_elem;
        {
            // taken from a scratch vector so that the shared vectors stay untouched
            uint64_t id3 = 1;
            Vec scratch = make(rng, 1, 0, fixed, arena_s, id3, &model_s);
            shared_elem.emplace(std::move(scratch[0]), typename E::allocator_type{arena_e});
        }
        // a read-only use must leave the shared objects as they were (also visible without any race detector)
        auto state = [&]
        {
            uint64_t d = digest(*shared_elem) * 1000003;
            for (auto&& r : a) d = d * 31 + digest(r);
            for (auto&& r : b) d = d * 37 + digest(r);
            return d + a.size() * 7 + b.size() * 11 + a.capacity() + b.capacity();
        };
        // what the shared objects hold is known from how they were built: the main thread does not touch them before the threads
        // start (a const call made here could already refresh a lazily maintained cache and hide its race)
        uint64_t state_before = digest_model(model_s[0]) * 1000003;
        for (auto& e : model_a) state_before = state_before * 31 + digest_model(e);
        for (auto& e : model_b) state_before = state_before * 37 + digest_model(e);
        state_before += model_a.size() * 7 + model_b.size() * 11 + a_capacity + b_capacity;
        g_go.store(false, std::memory_order_relaxed);
        std::vector<std::thread> ts;
        const int writers = std::max(1, threads / 4);
        for (int t = 0; t < threads - writers; ++t) ts.emplace_back(reader, std::cref(a), std::cref(b), std::cref(*shared_elem), t, rounds, mix(seed, static_cast<uint64_t>(cno)));
        for (int t = 0; t < writers; ++t) ts.emplace_back(writer, std::cref(a), std::cref(b), t, rounds / 4 + 1, mix(seed, static_cast<uint64_t>(cno)));
        g_go.store(true, std::memory_order_release);
        for (auto& t : ts) t.join();
        if (state() != state_before)
            violation("C19", "shared_object_modified_by_const_use", "the contents of the shared vectors / element differ after the threads (which only used them through const access) ended", "concurrent_const_use", "shared");
    }
};
}  // namespace

int main(int argc, char** argv)
{
    using Cfg = VF_CFG;
    Args args(argc, argv);
    open_out(args);
    registry().enabled = false;
    const uint64_t seed = static_cast<uint64_t>(args.num("seed", 1));
    const int64_t from = args.num("from", 0), to = args.num("to", 4);
    const int threads = static_cast<int>(args.num("threads", 8));
    const int rounds = static_cast<int>(args.num("rounds", 2000));
    emit(J().kv("t", "hello").kv("engine", "race").kv("cfg", VF_CFG_STR).kv("category", Cfg::category()).kv("tsan", bool(VF_TSAN)).str());
    for (int64_t c = from; c < to; ++c)
    {
        emit(J().kv("t", "case_begin").kv("case", c).str());
        arm_case_watchdog(900);
        set_ctx(c, 0, "concurrent_const_use", "shared", "C19", fmt("threads=%d,rounds=%d", threads, rounds).c_str());
        out().viol_in_case = 0;
        Engine<Cfg>::run_case(seed, c, threads, rounds);
        uint64_t pairs = 0;
        for (int i = 0; i < R_COUNT; ++i)
            for (int k = 0; k < R_COUNT; ++k)
                if (g_overlap[i][k].load() != 0) ++pairs;
        emit(J().kv("t", "case_end").kv("case", c).kv("steps", static_cast<int64_t>(threads) * rounds).kv("viol", out().viol_in_case).kv("hash", fmt("%s|%" PRIu64 "|%lld", VF_CFG_STR, seed, static_cast<long long>(c))).raw("nt", fmt("{\"C19\":%d}", int(pairs >= 20)))
                 .raw("trace", jarr_str({fmt("%d threads x %d rounds of const operations on 2 shared vectors and 1 shared element of %s, %d writer threads on private copies", threads, rounds, VF_CFG_STR, std::max(1, threads / 4))})).str());
    }
    Counters cn;
    uint64_t pairs = 0;
    std::vector<std::string> pair_names;
    for (int i = 0; i < R_COUNT; ++i)
    {
        cn.add(ROP_NAME[i], g_ops[i].load());
        for (int k = 0; k < R_COUNT; ++k)
            if (g_overlap[i][k].load() != 0)
            {
                ++pairs;
                pair_names.push_back(std::string(ROP_NAME[i]) + " || " + ROP_NAME[k]);
            }
    }
    counters().add("distinct_overlapping_operation_pairs", pairs);
    emit(J().kv("t", "summary").raw("ops", cn.json()).raw("counters", counters().json()).kv("steps", static_cast<uint64_t>(to - from) * static_cast<uint64_t>(threads) * static_cast<uint64_t>(rounds)).kv("avoided", 0).raw("prestate_op", jarr_str(pair_names)).kv("objects_constructed", 0).kv("objects_destroyed", 0).kv("alloc_events", 0).kv("dealloc_events", 0).str());
    return static_cast<int>(g_sink.load() & 0);
}
