// fault engine (C17): allocation-failure enumeration. For every generated (operation, pre-state) the operation runs once
// fault-free to count the allocator calls k it makes, then again from an identical pre-state with the i-th allocation
// throwing std::bad_alloc, for every i in 1..k. After the throw: operands must still be valid (size() == live elements,
// readable, assignable, destructible), reserve / copy construction must leave the source unchanged, and once everything
// is destroyed the ledger and the object registry must balance.
#include "vf/vecmon.hpp"

using namespace vf;

namespace
{
enum FOp
{
    FO_CONSTRUCT,
    FO_RESERVE,
    FO_COPY_CONSTRUCT,
    FO_COPY_ASSIGN,
    FO_MOVE_ASSIGN,
    FO_ELEM_FROM_REF,
    FO_ELEM_COPY,
    FO_ELEM_COPY_ASSIGN,
    FO_ELEM_MOVE_ASSIGN,
    FO_COUNT
};
const char* FOP_NAME[FO_COUNT] = {"construct", "reserve", "copy_construct", "copy_assign", "move_assign_unequal", "element_from_reference", "element_copy", "element_copy_assign", "element_move_assign_unequal"};

template <class Cfg, class K>
struct Engine
{
    using Alloc = LedgerAlloc<std::byte, K>;
    using Vec = typename Cfg::template Vec<Alloc>;
    using E = typename Vec::value_type;
    using EAlloc = typename E::allocator_type;
    using G = Glue<Cfg>;
    using Mon = VecMon<Cfg, Vec>;
    static constexpr size_t NF = Cfg::NF;

    uint64_t runs = 0, faults = 0, fault_free = 0;
    std::map<std::string, uint64_t> op_runs;
    std::map<std::string, uint64_t> op_allocs;
    std::set<std::string> prestates;
    std::vector<std::string> trace;
    uint64_t next_id = 1;
    int64_t case_no = 0;
    std::string cur;

    void viol(const char* props, const char* kind, const std::string& d) { violation(props, kind, d, cur.c_str(), cur_pre.c_str()); }
    std::string cur_pre;

    struct Built
    {
        std::optional<Vec> v;
        MVec m;
    };

    void build(Built& b, Rng& rng, int arena, size_t max_cap, size_t max_span, int fill /*0 empty 1 partial 2 full*/)
    {
        MVec& m = b.m;
        m = MVec{};
        m.exists = true;
        m.cap = 1 + static_cast<size_t>(rng.below(max_cap));
        for (size_t i = 0; i < Cfg::N_FIXED; ++i) m.fixed.push_back(static_cast<size_t>(rng.below(4)));
        m.arena = K::ALWAYS_EQUAL ? 0 : arena;
        const size_t n = fill == 0 ? 0 : fill == 2 ? m.cap : static_cast<size_t>(rng.below(m.cap + 1));
        std::vector<MElem> es;
        size_t payload = 0;
        for (size_t i = 0; i < n; ++i)
        {
            std::vector<size_t> counts;
            for (size_t k = 0; k < Cfg::N_VARYING; ++k) counts.push_back(static_cast<size_t>(rng.below(max_span + 1)));
            es.push_back(G::make_model_elem(next_id++, m.fixed, counts));
            payload += Mon::payload(es.back());
        }
        m.budget = payload + static_cast<size_t>(rng.below(16));
        typename Vec::allocator_type alloc{m.arena};
        if constexpr (Cfg::N_FIXED != 0)
        {
            std::array<size_t, Cfg::N_FIXED> fs{};
            std::copy(m.fixed.begin(), m.fixed.end(), fs.begin());
            if constexpr (Cfg::N_VARYING != 0)
                b.v.emplace(m.cap, m.budget, fs, alloc);
            else
                b.v.emplace(m.cap, fs, alloc);
        }
        else if constexpr (Cfg::N_VARYING != 0)
            b.v.emplace(m.cap, m.budget, alloc);
        else
            b.v.emplace(m.cap, alloc);
        for (auto& e : es)
        {
            G::emplace_back(*b.v, e);
            m.e.push_back(e);
        }
    }

    // number of live instrumented objects inside the data block of a vector
    static size_t live_objects_in_block(const Vec& v)
    {
        const auto db = reinterpret_cast<uintptr_t>(v.data_begin());
        if (!db) return 0;
        const Block* blk = ledger().find_live(db);
        if (!blk) return SIZE_MAX;
        return registry().live_in(blk->base, blk->base + blk->bytes + 1);
    }

    // the operand must be valid after a failed operation: size() == number of live elements it owns, all readable
    void check_valid(Vec& v, const char* who)
    {
        const Vec& cv = v;
        const size_t n = cv.size();
        if (n > cv.capacity())
        {
            viol("C17", "invalid_after_failure", fmt("%s: size() %zu > capacity() %zu", who, n, cv.capacity()));
            return;
        }
        if (n == 0 && cv.data_begin() != cv.data_end())
        {
            // e.g. an end pointer left in a block that was given up: the next emplace_back within capacity() writes there
            viol("C17,C18", "invalid_after_failure", fmt("%s: size() == 0 but data_begin() %p != data_end() %p", who, static_cast<const void*>(cv.data_begin()), static_cast<const void*>(cv.data_end())));
            return;
        }
        if (!cv.data_begin() && cv.capacity() != 0 && cv.memory_consumption() == 0)
        {
            viol("C17", "invalid_after_failure", fmt("%s: capacity() == %zu without a block", who, cv.capacity()));
            return;
        }
        if (!cv.data_begin() && cv.memory_consumption() != 0)
        {
            viol("C17,C05", "invalid_after_failure", fmt("%s: owns no block but memory_consumption() == %zu", who, cv.memory_consumption()));
            return;
        }
        size_t tracked = 0;
        for (size_t i = 0; i < n; ++i)
        {
            const MElem e = G::read(cv[i]);  // reading a dead instrumented object is reported by the registry
            for (size_t k = 0; k < NF; ++k)
                if (Cfg::fields()[k].tracked) tracked += e.f[k].size();
        }
        if (out().viol_in_case) return;
        if (Cfg::HAS_TRACKED)
        {
            const size_t live = live_objects_in_block(v);
            if (live != tracked && !(n == 0 && live == 0))
                viol("C17,C06", "size_ne_live_elements", fmt("%s: size() == %zu accounts for %zu instrumented objects, %zu are alive in its block", who, n, tracked, live));
        }
    }

    // "Every operand remains valid": whatever state the failed operation left the vector in, it can be observed, used as the
    // source of a copy, given more room and appended to (the operations that are valid on any vector).
    void exercise(Vec& v, const char* who)
    {
        const Vec& cv = v;
        const size_t n = cv.size();
        if (n == 0)
        {
            if (!(cv.begin() == cv.end())) viol("C17,C18", "invalid_after_failure", fmt("%s: begin() != end() although size() == 0", who));
            if (cv.data_begin() != cv.data_end())
                viol("C17,C18", "invalid_after_failure", fmt("%s: size() == 0 but data_begin() %p != data_end() %p", who, static_cast<const void*>(cv.data_begin()), static_cast<const void*>(cv.data_end())));
        }
        if (out().viol_in_case) return;
        std::vector<MElem> held;
        size_t bytes = 0;
        for (size_t i = 0; i < n; ++i)
        {
            held.push_back(G::read(cv[i]));
            bytes += Mon::payload(held.back());
        }
        if (out().viol_in_case) return;
        if constexpr (Cfg::ALL_COPYABLE)
        {
            Vec copy(cv);
            bool same = std::as_const(copy).size() == n;
            for (size_t i = 0; same && i < n; ++i) same = elem_match(held[i], G::read(std::as_const(copy)[i]));
            if (!same) viol("C17,C09", "invalid_after_failure", fmt("%s: a copy of the operand does not hold what the operand holds", who));
        }
        if (out().viol_in_case) return;
        const std::vector<size_t> fixed = Mon::fixed_sizes(cv);
        const MElem extra = G::make_model_elem(next_id++, fixed, std::vector<size_t>(Cfg::N_VARYING, 2));
        const size_t n2 = std::max(cv.capacity(), n) + 1;
        if constexpr (Cfg::N_VARYING != 0)
            v.reserve(n2, bytes + Mon::payload(extra));
        else
            v.reserve(n2);
        if (cv.capacity() != n2 || cv.size() != n)
        {
            viol("C17,C10", "invalid_after_failure", fmt("%s: reserve(%zu) gave capacity() %zu, size() %zu (was %zu)", who, n2, cv.capacity(), cv.size(), n));
            return;
        }
        G::emplace_back(v, extra);
        bool same = cv.size() == n + 1 && elem_match(extra, G::read(cv[n]));
        for (size_t i = 0; same && i < n; ++i) same = elem_match(held[i], G::read(cv[i]));
        if (!same) viol("C17,C01", "invalid_after_failure", fmt("%s: after reserve + emplace_back the operand does not hold its elements plus the new one", who));
        ledger().check_all_canaries();
    }

    // returns number of allocator calls made by the operation (fault-free run) or -1 when the fault was injected
    // fail_at: 0 = fault free; i >= 1: the i-th allocation of the operation throws
    int64_t run(int op, uint64_t seed, int fail_at, size_t max_cap, size_t max_span)
    {
        Rng rng(seed);
        next_id = 1;
        ledger().junk = static_cast<int>(seed % 4);
        ledger().placement = static_cast<int>((seed / 4) % 2);
        Built src, dst;
        const int fill_src = static_cast<int>(rng.below(3)), fill_dst = static_cast<int>(rng.below(3));
        build(src, rng, 1, max_cap, max_span, fill_src == 0 && op >= FO_ELEM_FROM_REF ? 1 : fill_src);
        if (op >= FO_ELEM_FROM_REF && src.m.e.empty())
        {
            src.v.reset();
            build(src, rng, 1, max_cap, max_span, 2);
        }
        const bool need_dst = op == FO_COPY_ASSIGN || op == FO_MOVE_ASSIGN;
        if (need_dst) build(dst, rng, 2, max_cap, max_span, fill_dst);
        std::optional<E> e1, e2;
        MElem me1, me2;
        int e2_arena = 0;
        const size_t idx = src.m.e.empty() ? 0 : static_cast<size_t>(rng.below(src.m.e.size()));
        const size_t idx2 = src.m.e.empty() ? 0 : static_cast<size_t>(rng.below(src.m.e.size()));
        if (op == FO_ELEM_COPY || op == FO_ELEM_COPY_ASSIGN || op == FO_ELEM_MOVE_ASSIGN)
        {
            // elements are taken by moving out of the vector for move-only lists
            if constexpr (Cfg::ALL_COPYABLE)
            {
                e1.emplace(std::as_const(*src.v)[idx], EAlloc{1});
                me1 = src.m.e[idx];
                if (op != FO_ELEM_COPY)
                {
                    e2.emplace(std::as_const(*src.v)[idx2], EAlloc{2});
                    me2 = src.m.e[idx2];
                    e2_arena = K::ALWAYS_EQUAL ? 0 : 2;
                }
            }
            else
                return 0;
        }
        cur = FOP_NAME[op];
        cur_pre = fmt("%s/%s", prestate(src.m), need_dst ? prestate(dst.m) : "-");
        set_ctx(case_no, fail_at, FOP_NAME[op], cur_pre.c_str(), "C17", fmt("fail_at=%d", fail_at).c_str());
        prestates.insert(std::string(FOP_NAME[op]) + "@" + cur_pre);
        const size_t new_cap = src.m.cap + 1 + static_cast<size_t>(rng.below(4));
        const size_t new_budget = Mon::payload(src.m) + static_cast<size_t>(rng.below(40));
        const int form = static_cast<int>(rng.below(3));
        std::optional<Vec> made;
        std::optional<E> made_e;
        bool threw = false;
        const uint64_t allocs_before = ledger().alloc_events;
        const uint64_t faults_before = ledger().faults_injected;
        ledger().fail_countdown = fail_at > 0 ? fail_at - 1 : -1;
        try
        {
            switch (op)
            {
                case FO_CONSTRUCT:
                {
                    Built tmp;
                    Rng r2(seed ^ 0x77);
                    build(tmp, r2, 2, max_cap, max_span, 0);
                    made = std::move(tmp.v);
                    break;
                }
                case FO_RESERVE:
                    if constexpr (Cfg::N_VARYING != 0)
                        src.v->reserve(new_cap, new_budget);
                    else
                        src.v->reserve(new_cap);
                    break;
                case FO_COPY_CONSTRUCT:
                    if constexpr (Cfg::ALL_COPYABLE) made.emplace(std::as_const(*src.v));
                    break;
                case FO_COPY_ASSIGN:
                    if constexpr (Cfg::ALL_COPYABLE) *dst.v = std::as_const(*src.v);
                    break;
                case FO_MOVE_ASSIGN: *dst.v = std::move(*src.v); break;
                case FO_ELEM_FROM_REF:
                    if constexpr (Cfg::ALL_COPYABLE)
                    {
                        if (form == 0)
                            made_e.emplace(std::as_const(*src.v)[idx]);
                        else if (form == 1)
                            made_e.emplace(std::as_const(*src.v)[idx], EAlloc{2});
                        else
                        {
                            auto r = (*src.v)[idx];
                            made_e.emplace(r);
                        }
                    }
                    else
                        made_e.emplace((*src.v)[idx], EAlloc{2});
                    break;
                case FO_ELEM_COPY:
                    if constexpr (Cfg::ALL_COPYABLE)
                    {
                        if (form == 0)
                            made_e.emplace(std::as_const(*e1));
                        else
                            made_e.emplace(std::as_const(*e1), EAlloc{2});
                    }
                    break;
                case FO_ELEM_COPY_ASSIGN:
                    if constexpr (Cfg::ALL_COPYABLE && Cfg::ALL_COPY_ASSIGNABLE) *e2 = std::as_const(*e1);
                    break;
                case FO_ELEM_MOVE_ASSIGN:
                    if constexpr (Cfg::ALL_COPYABLE) *e2 = std::move(*e1);
                    break;
            }
        }
        catch (const std::bad_alloc&)
        {
            threw = true;
        }
        ledger().fail_countdown = -1;
        const int64_t allocs = static_cast<int64_t>(ledger().alloc_events - allocs_before);
        const bool injected = ledger().faults_injected != faults_before;
        ++runs;
        ++op_runs[FOP_NAME[op]];
        if (fail_at == 0)
        {
            ++fault_free;
            op_allocs[FOP_NAME[op]] += static_cast<uint64_t>(allocs);
        }
        if (injected) ++faults;
        if (injected && !threw)
        {
            // swallowing the failure is only acceptable if the operation still did its job; treat like a fault-free run below
        }
        set_ctx(case_no, fail_at, FOP_NAME[op], cur_pre.c_str(), "C17", fmt("fail_at=%d,after", fail_at).c_str());
        if (threw)
        {
            // ---- what must hold after the failure
            ledger().check_all_canaries();
            registry().sweep();
            switch (op)
            {
                case FO_CONSTRUCT: break;
                case FO_RESERVE:
                case FO_COPY_CONSTRUCT:
                    Mon::check(*src.v, src.m, cur.c_str(), cur_pre.c_str(), "source after the failed operation");
                    break;
                case FO_COPY_ASSIGN:
                    Mon::check(*src.v, src.m, cur.c_str(), cur_pre.c_str(), "source after the failed copy assignment");
                    if (!out().viol_in_case) check_valid(*dst.v, "target after the failed copy assignment");
                    break;
                case FO_MOVE_ASSIGN:
                    check_valid(*dst.v, "target after the failed move assignment");
                    if (!out().viol_in_case) check_valid(*src.v, "source after the failed move assignment");
                    break;
                case FO_ELEM_FROM_REF:
                    if (form != 2 && Cfg::ALL_COPYABLE) Mon::check(*src.v, src.m, cur.c_str(), cur_pre.c_str(), "vector after the failed element construction");
                    break;
                case FO_ELEM_COPY:
                    if (!elem_match(me1, G::read(std::as_const(*e1)))) viol("C17,C12", "source_changed", "source element changed by a failed copy construction");
                    break;
                case FO_ELEM_COPY_ASSIGN:
                    if (!elem_match(me1, G::read(std::as_const(*e1)))) viol("C17,C12", "source_changed", "source element changed by a failed copy assignment");
                    break;
                case FO_ELEM_MOVE_ASSIGN: break;
            }
            // ---- ... and usable (every other pre-state; the remaining ones go straight to the re-assignment below, which has to
            // cope with exactly the state the failure left behind)
            if (!out().viol_in_case && (op == FO_COPY_ASSIGN || op == FO_MOVE_ASSIGN) && ((seed >> 5) & 1))
            {
                set_ctx(case_no, fail_at, FOP_NAME[op], cur_pre.c_str(), "C17", fmt("fail_at=%d,exercise", fail_at).c_str());
                exercise(*dst.v, "target after the failed assignment");
                if (!out().viol_in_case && op == FO_MOVE_ASSIGN) exercise(*src.v, "source after the failed move assignment");
            }
            // ---- operands must still be assignable
            if (!out().viol_in_case && (op == FO_COPY_ASSIGN || op == FO_MOVE_ASSIGN))
            {
                set_ctx(case_no, fail_at, FOP_NAME[op], cur_pre.c_str(), "C17", fmt("fail_at=%d,reassign", fail_at).c_str());
                Built fresh;
                Rng r3(seed ^ 0x99);
                build(fresh, r3, 2, max_cap, max_span, 2);
                MVec expect = fresh.m;
                // the failed assignment may already have propagated the allocator (basic guarantee): start from what the target reports
                const int arena_after_failure = std::as_const(*dst.v).get_allocator().get_arena();
                *dst.v = std::move(*fresh.v);
                expect.cap = std::as_const(*dst.v).capacity();
                expect.arena = K::POCMA ? fresh.m.arena : arena_after_failure;
                expect.fresh_block = false;
                Mon::check(*dst.v, expect, cur.c_str(), cur_pre.c_str(), "target re-assigned after the failure");
            }
            if (!out().viol_in_case && (op == FO_ELEM_COPY_ASSIGN || op == FO_ELEM_MOVE_ASSIGN) && e2)
            {
                set_ctx(case_no, fail_at, FOP_NAME[op], cur_pre.c_str(), "C17", fmt("fail_at=%d,reassign", fail_at).c_str());
                if constexpr (Cfg::ALL_COPYABLE)
                {
                    E other{std::as_const(*src.v)[idx2], EAlloc{e2_arena}};
                    *e2 = std::move(other);
                    if (!elem_match(src.m.e[idx2], G::read(std::as_const(*e2)))) viol("C17,C12", "not_assignable", "element re-assigned after the failure holds wrong values");
                }
            }
        }
        // ---- destroy everything: exactly-once destruction and the ledger balance
        set_ctx(case_no, fail_at, FOP_NAME[op], cur_pre.c_str(), "C17,C07,C06", fmt("fail_at=%d,destroy", fail_at).c_str());
        if (!out().viol_in_case)
        {
            made.reset();
            made_e.reset();
            e2.reset();
            e1.reset();
            dst.v.reset();
            src.v.reset();
            for (auto& [base, b] : ledger().blocks)
                if (b.live) viol("C17,C07", b.tag == TAG_TABLE ? "table_block_leaked" : "block_leaked", fmt("block (+%zu bytes, tag %d, arena %d) still allocated after %s with allocation %d failing", b.bytes, b.tag, b.arena, FOP_NAME[op], fail_at));
            if (!registry().live.empty()) viol("C17,C06", "objects_never_destroyed", fmt("%zu instrumented objects were never destroyed after %s with allocation %d failing", registry().live.size(), FOP_NAME[op], fail_at));
        }
        else
        {
            // state is suspect: leak deliberately
            new std::optional<Vec>(std::move(made));
            new std::optional<E>(std::move(made_e));
            new std::optional<E>(std::move(e1));
            new std::optional<E>(std::move(e2));
            new std::optional<Vec>(std::move(dst.v));
            new std::optional<Vec>(std::move(src.v));
        }
        registry().reset();
        if (out().viol_in_case == 0) ledger().reset(); else ledger().blocks.clear();
        return injected ? -1 : allocs;
    }
};
}  // namespace

int main(int argc, char** argv)
{
    using Cfg = VF_CFG;
    using K = VF_KIND;
    Args args(argc, argv);
    open_out(args);
    ledger().release_hook = registry_release_hook;
    out().extra_props = "C17";
    const uint64_t seed = static_cast<uint64_t>(args.num("seed", 1));
    const int64_t from = args.num("from", 0), to = args.num("to", 10);
    const size_t max_cap = static_cast<size_t>(args.num("max-cap", 5));
    const size_t max_span = static_cast<size_t>(args.num("max-span", 4));
    emit(J().kv("t", "hello").kv("engine", "fault").kv("cfg", VF_CFG_STR).kv("kind", K::name()).kv("category", Cfg::category()).str());
    Engine<Cfg, K> e;
    uint64_t nontrivial = 0;
    for (int64_t c = from; c < to; ++c)
    {
        emit(J().kv("t", "case_begin").kv("case", c).str());
        arm_case_watchdog(40);
        e.case_no = c;
        out().viol_in_case = 0;
        out().soft_in_case = 0;
        const int op = static_cast<int>(static_cast<uint64_t>(c) % FO_COUNT);
        const uint64_t cs = mix(seed, static_cast<uint64_t>(c) / FO_COUNT + 0xFA17);
        // fault-free run counts the allocations; then each one fails in turn
        const int64_t k = e.run(op, cs, 0, max_cap, max_span);
        int injected_runs = 0;
        for (int i = 1; i <= k && out().viol_in_case == 0; ++i)
        {
            if (e.run(op, cs, i, max_cap, max_span) == -1) ++injected_runs;
        }
        if (k > 0 && injected_runs != k && out().viol_in_case == 0)
            emit(J().kv("t", "harness_error").kv("what", fmt("%s: %lld allocations in the fault-free run but only %d faults could be injected", FOP_NAME[op], static_cast<long long>(k), injected_runs)).str());
        const int v = out().viol_in_case;
        if (injected_runs > 0) ++nontrivial;
        J j;
        j.kv("t", "case_end").kv("case", c).kv("steps", static_cast<int64_t>(k + 1)).kv("viol", v).kv("hash", fmt("%s|%016" PRIx64, FOP_NAME[op], cs)).raw("nt", fmt("{\"C17\":%d}", int(injected_runs > 0)));
        if (c - from < 9) j.raw("trace", jarr_str({fmt("%s from pre-state %s: %lld allocations, each failed in turn (%d runs)", FOP_NAME[op], e.cur_pre.c_str(), static_cast<long long>(k), injected_runs)}));
        emit(j.str());
        if (v != 0 && c + 1 < to)
        {
            emit(J().kv("t", "bail").kv("next", c + 1).str());
            break;
        }
    }
    Counters cn{e.op_runs};
    counters().add("runs", e.runs);
    counters().add("faults_injected", e.faults);
    counters().add("fault_free_runs", e.fault_free);
    for (auto& [k, v] : e.op_allocs) counters().add("allocations_in_fault_free_runs:" + k, v);
    emit(J().kv("t", "summary").raw("ops", cn.json()).raw("counters", counters().json()).kv("steps", e.runs).kv("avoided", 0).raw("prestate_op", jarr_str(std::vector<std::string>(e.prestates.begin(), e.prestates.end()))).kv("objects_constructed", registry().constructed).kv("objects_destroyed", registry().destroyed).kv("alloc_events", ledger().alloc_events).kv("dealloc_events", ledger().dealloc_events).str());
    return 0;
}
