// elem engine (C12): a pool of ContiguousElements (Vector::value_type) next to one source vector and a model. Sequences of
// constructions in every form, copy / move assignment across varying sizes and allocators, swap, element <-> reference
// assignment and mutations; after every step values, independence, allocator identity, block ownership, layout,
// alignment, object lifetime and the ledger are checked.
#include "vf/vecmon.hpp"

using namespace vf;

namespace
{
template <class Cfg, class K>
struct Engine
{
    using Alloc = LedgerAlloc<std::byte, K>;
    using Vec = typename Cfg::template Vec<Alloc>;
    using E = typename Vec::value_type;
    using EAlloc = typename E::allocator_type;
    using G = Glue<Cfg>;
    using Mon = VecMon<Cfg, Vec>;
    static constexpr size_t NF = Cfg::NF;
    static constexpr int POOL = 4;

    struct MEl
    {
        bool exists = false;
        bool moved_from = false;
        bool owns_block = false;
        size_t residual_objects = 0;
        MElem e;
        int arena = 0;
    };

    Rng rng{1};
    std::optional<Vec> v;
    MVec m;
    std::optional<E> pool[POOL];
    MEl pm[POOL];
    uint64_t next_id = 1;
    int64_t case_no = 0;
    int step = 0;
    std::vector<std::string> trace;
    uint64_t hash = 0;
    std::map<std::string, uint64_t> op_count;
    std::string cur;
    int assigns_with_size_change = 0;
    uint64_t elements_checked = 0;

    void begin(const char* op, const std::string& args, const char* pre = "element")
    {
        cur = op;
        cnt_copies_at_begin = Cnt8::copies();
        cnt_copy_expect = 0;
        set_ctx(case_no, step, op, pre, "C12,C02,C06,C07", args.c_str());
        ++op_count[op];
        const std::string line = std::string(op) + "(" + args + ")";
        hash = mix(hash, std::hash<std::string>{}(line));
        if (trace.size() < 48) trace.push_back(line);
        if (out().verbose) emit(J().kv("t", "op").kv("case", case_no).kv("step", step).kv("op", line).str());
    }
    void viol(const char* props, const char* kind, const std::string& d) { violation(props, kind, d, cur.c_str(), "element"); }
    // objects of the type with user-provided copy / trivial move operations that the running operation has to copy
    uint64_t cnt_copies_at_begin = 0;
    size_t cnt_copy_expect = 0;
    static size_t cnt_objects(const MElem& e) { return objects_of_type(Cfg::fields(), e.f, "Cnt8"); }

    static size_t tracked_objects(const MElem& e)
    {
        size_t n = 0;
        for (size_t k = 0; k < NF; ++k)
            if (Cfg::fields()[k].tracked) n += e.f[k].size();
        return n;
    }

    static MElem moved_from(const MElem& e)
    {
        MElem r = e;
        for (size_t k = 0; k < NF; ++k)
            for (auto& x : r.f[k]) x = G::moved_value(k, x);
        return r;
    }

    int pick_arena() { return !K::HAS_IDENTITY ? 0 : static_cast<int>(rng.range(0, 2)); }
    static int soccc(int a) { return K::SOCCC_DEFAULT ? 0 : a; }

    void check_element(int i)
    {
        if (!pool[i]) return;
        if (pm[i].moved_from)
        {
            // the contents of a moved-from element are unspecified, its allocator is not: moving an allocator leaves it equal
            // to what it was, and swap exchanges the allocators of moved-from elements like those of any others
            const int arena = std::as_const(*pool[i]).get_allocator().get_arena();
            if (arena != pm[i].arena) viol("C08,C12", "allocator_identity", fmt("moved-from e%d: get_allocator() is arena %d, expected %d", i, arena, pm[i].arena));
            return;
        }
        ++elements_checked;
        E& e = *pool[i];
        const E& ce = e;
        const MEl& me = pm[i];
        const auto& fields = Cfg::fields();
        char who[8];
        snprintf(who, sizeof who, "e%d", i);
        // structure first (span counts are C04's business too), then values
        {
            const auto a0 = G::addresses(ce);
            for (size_t k = 0; k < NF; ++k)
                if (a0[k].count != me.e.f[k].size())
                {
                    viol("C04,C12", "span_count_mismatch", fmt("%s field %zu: span holds %zu objects, expected %zu", who, k, a0[k].count, me.e.f[k].size()));
                    return;
                }
        }
        const MElem got = G::read(ce);
        if (!elem_match(me.e, got))
        {
            viol("C12", "element_value_mismatch", fmt("%s: got %s expected %s", who, elem_str(got).c_str(), elem_str(me.e).c_str()));
            return;
        }
        if (!elem_match(me.e, G::read(e))) viol("C12", "element_value_mismatch", fmt("%s: mutable get<I> differs from const get<I>", who));
        {
            typename Vec::const_reference cr = ce;  // element -> reference conversion denotes the same objects
            typename Vec::reference r = e;
            if (!elem_match(me.e, G::read(cr)) || !elem_match(me.e, G::read(r))) viol("C12,C11", "element_reference_conversion", fmt("%s: reference made from the element reads different values", who));
        }
        if (ce.get_allocator().get_arena() != me.arena) viol("C08,C12", "allocator_identity", fmt("%s: get_allocator() is arena %d, expected %d", who, ce.get_allocator().get_arena(), me.arena));
        const auto a = G::addresses(ce);
        {
            // an element whose fields occupy no bytes at all (every FixedSize span empty) needs no storage: a null block is fine
            bool zero = true;
            for (size_t k = 0; k < NF; ++k) zero = zero && fields[k].kind == 'F' && me.e.f[k].empty();
            if (zero && a[0].begin == 0)
            {
                pm[i].owns_block = false;
                return;
            }
        }
        const Block* blk = ledger().find_live(a[0].begin);
        // an element whose fields occupy no bytes may own a zero-size block
        if (!blk)
        {
            viol("C12,C02,C07", "element_outside_allocator_memory", fmt("%s: first field at %#zx is not inside a live block of the allocator", who, size_t(a[0].begin)));
            return;
        }
        if (blk->arena != (K::ALWAYS_EQUAL ? 0 : me.arena)) viol("C08,C12", "block_of_foreign_arena", fmt("%s: storage block belongs to arena %d, get_allocator() is arena %d", who, blk->arena, me.arena));
        if (a[0].begin != blk->base) viol("C05,C12", "element_not_at_block_start", fmt("%s: first field at %#zx, block starts at %#zx", who, size_t(a[0].begin), size_t(blk->base)));
        uintptr_t prev_end = blk->base;
        for (size_t k = 0; k < NF; ++k)
        {
            const uintptr_t b = a[k].begin, en = b + a[k].count * fields[k].size;
            if (a[k].count != me.e.f[k].size()) viol("C04,C12", "span_count_mismatch", fmt("%s field %zu: span holds %zu objects, expected %zu", who, k, a[k].count, me.e.f[k].size()));
            if (b < blk->base || en > blk->base + blk->bytes) viol("C02,C12", "object_outside_block", fmt("%s field %zu: [%#zx,%#zx) outside the block [%#zx,+%zu)", who, k, size_t(b), size_t(en), size_t(blk->base), blk->bytes));
            if (fields[k].align_declared && a[k].count != 0 && b % fields[k].align != 0) viol("C03,C12", "misaligned_object", fmt("%s field %zu (AlignAs %zu): address %#zx", who, k, fields[k].align, size_t(b)));
            if (k != 0 && b < prev_end) viol("C04,C12", "fields_overlap_or_out_of_order", fmt("%s field %zu begins at %#zx before the end %#zx of the previous field", who, k, size_t(b), size_t(prev_end)));
            const uintptr_t expect = k == 0 ? blk->base : align_up(prev_end, fields[k].align);
            if (b != expect) viol("C05,C12", "field_not_tightly_packed", fmt("%s field %zu: starts at %#zx, expected %#zx", who, k, size_t(b), size_t(expect)));
            prev_end = en;
        }
    }

    void check_all()
    {
        if (cnt_copy_expect != 0 && Cnt8::copies() - cnt_copies_at_begin < cnt_copy_expect)
            viol("C12,C06", "copy_bypasses_copy_operations", fmt("the operation had to copy %zu objects of a type with user-provided copy / trivial move operations, its copy constructor / copy assignment ran %" PRIu64 " times", cnt_copy_expect, Cnt8::copies() - cnt_copies_at_begin));
        cnt_copy_expect = 0;
        if (out().viol_in_case) return;
        ledger().check_all_canaries();
        if (!Mon::check(*v, m, cur.c_str(), "element", "v")) return;
        size_t expect_objs = 0, blocks = 1;
        for (auto& e : m.e) expect_objs += tracked_objects(e);
        for (int i = 0; i < POOL; ++i)
        {
            if (!pool[i]) continue;
            check_element(i);
            if (pm[i].moved_from)
                expect_objs += pm[i].residual_objects;
            else
                expect_objs += tracked_objects(pm[i].e);
            if (pm[i].owns_block) ++blocks;
        }
        registry().sweep();
        if (Cfg::HAS_TRACKED && registry().live.size() != expect_objs)
            viol("C06,C12", "live_set_mismatch", fmt("%zu instrumented objects are alive, vector and elements logically hold %zu", registry().live.size(), expect_objs));
        const size_t data_blocks = ledger().live_count(TAG_DATA);
        if (data_blocks != blocks) viol("C07,C12", data_blocks > blocks ? "block_orphaned" : "block_missing", fmt("%zu data blocks are allocated, vector and elements own %zu", data_blocks, blocks));
    }

    // ---------------------------------------------------------------------------------------- operations
    int vacant()
    {
        std::vector<int> c;
        for (int i = 0; i < POOL; ++i)
            if (!pool[i]) c.push_back(i);
        return c.empty() ? -1 : c[rng.below(c.size())];
    }
    int usable()
    {
        std::vector<int> c;
        for (int i = 0; i < POOL; ++i)
            if (pool[i] && !pm[i].moved_from) c.push_back(i);
        return c.empty() ? -1 : c[rng.below(c.size())];
    }
    int existing()
    {
        std::vector<int> c;
        for (int i = 0; i < POOL; ++i)
            if (pool[i]) c.push_back(i);
        return c.empty() ? -1 : c[rng.below(c.size())];
    }
    // a vector element that has not been moved from
    int intact_vector_index()
    {
        std::vector<int> c;
        for (size_t i = 0; i < m.e.size(); ++i)
            if (!vec_moved[i]) c.push_back(static_cast<int>(i));
        return c.empty() ? -1 : c[rng.below(c.size())];
    }
    std::vector<bool> vec_moved;

    void op_construct_from_reference()
    {
        const int d = vacant(), idx = intact_vector_index();
        if (d < 0 || idx < 0) return;
        int form = static_cast<int>(rng.below(6));
        if (!Cfg::ALL_COPYABLE) form = 4 + form % 2;
        const int arena = pick_arena();
        static const char* names[] = {"E(lvalue reference)", "E(lvalue reference, alloc)", "E(const_reference)", "E(const_reference, alloc)", "E(rvalue reference)", "E(rvalue reference, alloc)"};
        begin("construct_from_reference", fmt("e%d,form=%s,v[%d],arena=%d", d, names[form], idx, arena));
        Vec& vec = *v;
        if (form < 4) cnt_copy_expect = cnt_objects(m.e[static_cast<size_t>(idx)]);
        const uint64_t moves_before = registry().move_constructed, copies_before = registry().copy_constructed;
        const uint64_t ctm_before = CopyTrivMove8::move_constructions;
        const auto ui = static_cast<size_t>(idx);
        if constexpr (Cfg::ALL_COPYABLE)
        {
            if (form == 0)
            {
                auto r = vec[ui];
                pool[d].emplace(r);
            }
            else if (form == 1)
            {
                auto r = vec[ui];
                pool[d].emplace(r, EAlloc{arena});
            }
            else if (form == 2)
                pool[d].emplace(std::as_const(vec)[ui]);
            else if (form == 3)
                pool[d].emplace(std::as_const(vec)[ui], EAlloc{arena});
        }
        if (form == 4)
            pool[d].emplace(vec[ui]);
        else if (form == 5)
        {
            auto r = vec[ui];
            pool[d].emplace(std::move(r), EAlloc{arena});
        }
        pm[d] = MEl{};
        pm[d].exists = true;
        pm[d].owns_block = true;
        pm[d].e = m.e[ui];
        pm[d].arena = (form % 2 == 1) ? (!K::HAS_IDENTITY ? 0 : arena) : 0;
        const size_t objs = tracked_objects(m.e[ui]);
        if (form >= 4)
        {
            // constructed from an rvalue mutable reference: the values are moved out of the vector, exactly once
            // a type with a trivial copy constructor but its own move constructor is not trivially copyable: moved, not memcpy'd
            const size_t ctm = objects_of_type(Cfg::fields(), m.e[ui].f, "Ctm8");
            if (CopyTrivMove8::move_constructions - ctm_before < ctm)
                viol("C12,C06", "relocation_bypasses_move_constructor", fmt("%s ran the move constructor of %" PRIu64 " objects of a type with trivial copy / user-provided move, the source holds %zu", names[form], CopyTrivMove8::move_constructions - ctm_before, ctm));
            m.e[ui] = moved_from(m.e[ui]);
            vec_moved[ui] = true;
            if (Cfg::HAS_TRACKED && registry().move_constructed - moves_before != objs)
                viol("C12,C06", "move_count", fmt("%s move-constructed %" PRIu64 " instrumented objects, the source holds %zu", names[form], registry().move_constructed - moves_before, objs));
        }
        else if (Cfg::HAS_TRACKED && (registry().copy_constructed - copies_before != objs || registry().move_constructed != moves_before))
            viol("C12,C06", "copy_count", fmt("%s copy-constructed %" PRIu64 " and move-constructed %" PRIu64 " instrumented objects, the source holds %zu", names[form], registry().copy_constructed - copies_before, registry().move_constructed - moves_before, objs));
        check_all();
    }

    void op_construct_from_element()
    {
        const int d = vacant(), s = usable();
        if (d < 0 || s < 0) return;
        int form = static_cast<int>(rng.below(4));
        if (!Cfg::ALL_COPYABLE) form = 2 + form % 2;
        const int arena = rng.chance(1, 2) ? pm[s].arena : pick_arena();
        static const char* names[] = {"E(const E&)", "E(const E&, alloc)", "E(E&&)", "E(E&&, alloc)"};
        begin("construct_from_element", fmt("e%d,form=%s,e%d,arena=%d", d, names[form], s, arena));
        if (form < 2) cnt_copy_expect = cnt_objects(pm[s].e);
        const MEl src = pm[s];
        const uint64_t allocs = ledger().alloc_events;
        if constexpr (Cfg::ALL_COPYABLE)
        {
            if (form == 0)
                pool[d].emplace(std::as_const(*pool[s]));
            else if (form == 1)
                pool[d].emplace(std::as_const(*pool[s]), EAlloc{arena});
        }
        if (form == 2)
            pool[d].emplace(std::move(*pool[s]));
        else if (form == 3)
            pool[d].emplace(std::move(*pool[s]), EAlloc{arena});
        pm[d] = MEl{};
        pm[d].exists = true;
        pm[d].owns_block = true;
        pm[d].e = src.e;
        const int eff = !K::HAS_IDENTITY ? 0 : arena;
        switch (form)
        {
            case 0: pm[d].arena = soccc(src.arena); break;
            case 1: pm[d].arena = eff; break;
            case 2:
                pm[d].arena = src.arena;
                pm[s].moved_from = true;
                pm[s].owns_block = false;
                pm[s].residual_objects = 0;
                if (ledger().alloc_events != allocs) viol("C12,C16", "move_construction_allocates", "move construction of an element allocated");
                break;
            case 3:
                pm[d].arena = eff;
                // allocator-extended move construction is not one of the operations C08 speaks about: with an always-equal
                // allocator the given instance and the source's compare equal, either label is accepted
                if (K::LABELLED) pm[d].arena = pool[d]->get_allocator().get_arena();
                pm[s].moved_from = true;
                if (K::ALWAYS_EQUAL || eff == src.arena)
                {
                    pm[s].owns_block = false;
                    pm[s].residual_objects = 0;
                }
                else
                {
                    pm[s].owns_block = src.owns_block;  // element-wise move into new storage: the source keeps its block (a zero-byte element may have none) and moved-from objects
                    pm[s].residual_objects = tracked_objects(src.e);
                }
                break;
        }
        check_all();
    }

    void op_assign_element()
    {
        const int d = existing(), s = usable();
        if (d < 0 || s < 0) return;
        int form = static_cast<int>(rng.below(2));
        if (!Cfg::ALL_COPYABLE || !Cfg::ALL_COPY_ASSIGNABLE) form = 1;
        if (form == 1 && d == s) return;  // self move assignment of the value types is not this property's business
        static const char* names[] = {"e = const E&", "e = E&&"};
        begin("assign_element", fmt("e%d,form=%s,e%d", d, names[form], s));
        const MEl src = pm[s];
        MEl& dst = pm[d];
        if (form == 0 && d != s) cnt_copy_expect = cnt_objects(src.e);
        if (!dst.moved_from && d != s)
        {
            bool differs = false;
            for (size_t k = 0; k < NF; ++k) differs = differs || dst.e.f[k].size() != src.e.f[k].size();
            if (differs) ++assigns_with_size_change;
        }
        if constexpr (Cfg::ALL_COPYABLE && Cfg::ALL_COPY_ASSIGNABLE)
        {
            if (form == 0) *pool[d] = std::as_const(*pool[s]);
        }
        if (form == 1) *pool[d] = std::move(*pool[s]);
        if (d != s)
        {
            const int dst_arena = dst.arena;
            dst.exists = true;
            dst.moved_from = false;
            dst.residual_objects = 0;
            dst.e = src.e;
            if (form == 0)
            {
                dst.arena = K::POCCA ? src.arena : dst_arena;
                dst.owns_block = true;
            }
            else
            {
                const bool steal = K::ALWAYS_EQUAL || K::POCMA || src.arena == dst_arena;
                dst.arena = K::POCMA ? src.arena : dst_arena;
                dst.owns_block = true;
                pm[s].moved_from = true;
                if (steal)
                {
                    pm[s].owns_block = false;
                    pm[s].residual_objects = 0;
                }
                else
                {
                    pm[s].owns_block = src.owns_block;  // it keeps what it had (a zero-byte element may own no block at all)
                    pm[s].residual_objects = tracked_objects(src.e);
                }
            }
        }
        check_all();
    }

    bool same_sizes(const MElem& a, const MElem& b)
    {
        for (size_t k = 0; k < NF; ++k)
            if (a.f[k].size() != b.f[k].size()) return false;
        return true;
    }

    void op_assign_reference_to_element()
    {
        // element = reference of equal field sizes (in-place assignment of the fields)
        const int d = usable();
        if (d < 0) return;
        std::vector<int> cand;
        for (size_t i = 0; i < m.e.size(); ++i)
            if (!vec_moved[i] && same_sizes(m.e[i], pm[d].e)) cand.push_back(static_cast<int>(i));
        if (cand.empty()) return;
        const auto idx = static_cast<size_t>(cand[rng.below(cand.size())]);
        int form = static_cast<int>(rng.below(3));
        if (!Cfg::ALL_COPY_ASSIGNABLE) form = 2;
        static const char* names[] = {"e = lvalue reference", "e = const_reference", "e = rvalue reference"};
        begin("assign_reference_to_element", fmt("e%d,form=%s,v[%zu]", d, names[form], idx));
        if (form < 2) cnt_copy_expect = cnt_objects(m.e[idx]);
        Vec& vec = *v;
        if constexpr (Cfg::ALL_COPY_ASSIGNABLE)
        {
            if (form == 0)
            {
                auto r = vec[idx];
                *pool[d] = r;
            }
            else if (form == 1)
                *pool[d] = std::as_const(vec)[idx];
        }
        if (form == 2) *pool[d] = vec[idx];
        pm[d].e.f = m.e[idx].f;
        if (form == 2)
        {
            m.e[idx] = moved_from(m.e[idx]);
            vec_moved[idx] = true;
        }
        check_all();
    }

    void op_assign_element_to_reference()
    {
        // reference = element of equal field sizes
        const int s = usable();
        if (s < 0) return;
        std::vector<int> cand;
        for (size_t i = 0; i < m.e.size(); ++i)
            if (same_sizes(m.e[i], pm[s].e)) cand.push_back(static_cast<int>(i));
        if (cand.empty()) return;
        const auto idx = static_cast<size_t>(cand[rng.below(cand.size())]);
        int form = static_cast<int>(rng.below(2));
        if (!Cfg::ALL_COPY_ASSIGNABLE) form = 1;
        static const char* names[] = {"reference = const E&", "reference = E&&"};
        begin("assign_element_to_reference", fmt("v[%zu],form=%s,e%d", idx, names[form], s));
        if (form == 0) cnt_copy_expect = cnt_objects(pm[s].e);
        Vec& vec = *v;
        if constexpr (Cfg::ALL_COPY_ASSIGNABLE)
        {
            if (form == 0) vec[idx] = std::as_const(*pool[s]);
        }
        if (form == 1) vec[idx] = std::move(*pool[s]);
        m.e[idx].f = pm[s].e.f;
        vec_moved[idx] = false;
        if (form == 1)
        {
            // the element's fields are moved from, the element itself still owns them
            pm[s].e = moved_from(pm[s].e);
            elem_moved[s] = true;
        }
        check_all();
    }
    bool elem_moved[POOL]{};

    void op_swap()
    {
        const int a = existing(), b = existing();
        if (a < 0 || b < 0) return;
        if (!(K::ALWAYS_EQUAL || K::POCS || pm[a].arena == pm[b].arena)) return;
        begin("swap", fmt("e%d,e%d", a, b));
        const uint64_t ev = ledger().alloc_events + ledger().dealloc_events;
        using std::swap;
        swap(*pool[a], *pool[b]);
        if (a != b)
        {
            const int aa = pm[a].arena, ab = pm[b].arena;
            std::swap(pm[a], pm[b]);
            std::swap(elem_moved[a], elem_moved[b]);
            if (!K::POCS)
            {
                pm[a].arena = aa;
                pm[b].arena = ab;
            }
        }
        if (ledger().alloc_events + ledger().dealloc_events != ev) viol("C12,C16", "swap_allocates", "swap of elements touched the allocator");
        check_all();
    }

    void op_destroy()
    {
        const int d = existing();
        if (d < 0) return;
        begin("destroy", fmt("e%d", d), pm[d].moved_from ? "moved-from" : "element");
        pool[d].reset();
        pm[d] = MEl{};
        elem_moved[d] = false;
        check_all();
    }

    void op_mutate()
    {
        // change the element or the vector: the other side must not notice
        const bool on_element = rng.chance(1, 2);
        if (on_element)
        {
            const int d = usable();
            if (d < 0) return;
            std::vector<std::pair<size_t, size_t>> cand;
            for (size_t k = 0; k < NF; ++k)
                if (Cfg::fields()[k].kind != 'C')
                    for (size_t t = 0; t < pm[d].e.f[k].size(); ++t) cand.emplace_back(k, t);
            if (cand.empty()) return;
            const auto [k, t] = cand[rng.below(cand.size())];
            const int64_t raw = static_cast<int64_t>(next_id++ * 64 + k * 8 + 6);
            begin("mutate_element", fmt("e%d.f%zu[%zu]=%" PRId64, d, k, t, raw));
            typename Vec::reference r = *pool[d];
            G::set_item(r, k, t, raw);
            pm[d].e.f[k][t] = G::project_field(k, raw);
        }
        else
        {
            const size_t idx = static_cast<size_t>(rng.below(m.e.size()));
            std::vector<std::pair<size_t, size_t>> cand;
            for (size_t k = 0; k < NF; ++k)
                if (Cfg::fields()[k].kind != 'C')
                    for (size_t t = 0; t < m.e[idx].f[k].size(); ++t) cand.emplace_back(k, t);
            if (cand.empty()) return;
            const auto [k, t] = cand[rng.below(cand.size())];
            const int64_t raw = static_cast<int64_t>(next_id++ * 64 + k * 8 + 6);
            begin("mutate_vector", fmt("v[%zu].f%zu[%zu]=%" PRId64, idx, k, t, raw));
            G::set_item((*v)[idx], k, t, raw);
            m.e[idx].f[k][t] = G::project_field(k, raw);
        }
        check_all();
    }

    void run_case(uint64_t seed, int64_t cno, size_t max_span, int max_steps)
    {
        rng = Rng(mix(seed, static_cast<uint64_t>(cno) + 0xE1E));
        case_no = cno;
        step = 0;
        out().viol_in_case = 0;
        out().soft_in_case = 0;
        trace.clear();
        hash = 0;
        next_id = 1;
        assigns_with_size_change = 0;
        ledger().junk = static_cast<int>((seed + static_cast<uint64_t>(cno)) % 4);
        ledger().placement = static_cast<int>((cno / 2) % 2);
        m = MVec{};
        m.exists = true;
        const size_t n = 2 + static_cast<size_t>(rng.below(4));
        m.cap = n;
        for (size_t i = 0; i < Cfg::N_FIXED; ++i) m.fixed.push_back(static_cast<size_t>(rng.below(4)));
        m.arena = !K::HAS_IDENTITY ? 0 : 1;
        std::vector<MElem> es;
        size_t payload = 0;
        for (size_t i = 0; i < n; ++i)
        {
            std::vector<size_t> counts;
            // two size classes so that equal-size partners exist, plus outliers
            for (size_t k = 0; k < Cfg::N_VARYING; ++k) counts.push_back(rng.chance(2, 3) ? (i % 2 ? 2 : 1) : static_cast<size_t>(rng.below(max_span + 1)));
            es.push_back(G::make_model_elem(next_id++, m.fixed, counts));
            payload += Mon::payload(es.back());
        }
        m.budget = payload;
        begin("build", fmt("n=%zu,fixed=%s", n, jarr_num(m.fixed).c_str()));
        {
            typename Vec::allocator_type alloc{m.arena};
            if constexpr (Cfg::N_FIXED != 0)
            {
                std::array<size_t, Cfg::N_FIXED> fs{};
                std::copy(m.fixed.begin(), m.fixed.end(), fs.begin());
                if constexpr (Cfg::N_VARYING != 0)
                    v.emplace(m.cap, m.budget, fs, alloc);
                else
                    v.emplace(m.cap, fs, alloc);
            }
            else if constexpr (Cfg::N_VARYING != 0)
                v.emplace(m.cap, m.budget, alloc);
            else
                v.emplace(m.cap, alloc);
        }
        for (auto& e : es)
        {
            G::emplace_back(*v, e);
            m.e.push_back(e);
        }
        vec_moved.assign(n, false);
        check_all();
        const int steps = static_cast<int>(rng.range(max_steps / 2, max_steps));
        for (step = 1; step <= steps && !out().viol_in_case; ++step)
        {
            const int r = static_cast<int>(rng.below(100));
            if (r < 22) op_construct_from_reference();
            else if (r < 36) op_construct_from_element();
            else if (r < 56) op_assign_element();
            else if (r < 66) op_assign_reference_to_element();
            else if (r < 74) op_assign_element_to_reference();
            else if (r < 82) op_swap();
            else if (r < 90) op_mutate();
            else op_destroy();
        }
        if (!out().viol_in_case)
        {
            for (int i = 0; i < POOL; ++i)
                if (pool[i])
                {
                    begin("destroy", fmt("e%d", i), pm[i].moved_from ? "moved-from" : "element");
                    pool[i].reset();
                    pm[i] = MEl{};
                    elem_moved[i] = false;
                }
            begin("destroy_vector", "");
            v.reset();
            if (ledger().live_count() != 0) violation("C07,C12", "block_leaked", fmt("%zu blocks still allocated after everything was destroyed", ledger().live_count()), "end_of_case", "all-destroyed");
            if (!registry().live.empty()) violation("C06,C12", "objects_never_destroyed", fmt("%zu instrumented objects were never destroyed", registry().live.size()), "end_of_case", "all-destroyed");
        }
        else
        {
            for (int i = 0; i < POOL; ++i)
            {
                if (pool[i])
                {
                    auto* leak = new std::optional<E>(std::move(pool[i]));  // NOLINT
                    (void)leak;
                    pool[i].reset();
                }
                pm[i] = MEl{};
                elem_moved[i] = false;
            }
            auto* leak = new std::optional<Vec>(std::move(v));  // NOLINT
            (void)leak;
            v.reset();
        }
    }
};
}  // namespace

int main(int argc, char** argv)
{
    using Cfg = VF_CFG;
    using K = VF_KIND;
    Args args(argc, argv);
    open_out(args);
    ledger().release_hook = registry_release_hook;
    const uint64_t seed = static_cast<uint64_t>(args.num("seed", 1));
    const int64_t from = args.num("from", 0), to = args.num("to", 10);
    const size_t max_span = static_cast<size_t>(args.num("max-span", 5));
    const int max_steps = static_cast<int>(args.num("max-steps", 30));
    emit(J().kv("t", "hello").kv("engine", "elem").kv("cfg", VF_CFG_STR).kv("kind", K::name()).kv("category", Cfg::category()).str());
    Engine<Cfg, K> e;
    uint64_t steps = 0;
    for (int64_t c = from; c < to; ++c)
    {
        emit(J().kv("t", "case_begin").kv("case", c).str());
        arm_case_watchdog(40);
        e.run_case(seed, c, max_span, max_steps);
        steps += static_cast<uint64_t>(e.step);
        registry().reset();
        const int v = out().viol_in_case;
        if (v == 0) ledger().reset(); else ledger().blocks.clear();
        J j;
        j.kv("t", "case_end").kv("case", c).kv("steps", e.step).kv("viol", v).kv("hash", fmt("%016" PRIx64, e.hash)).raw("nt", fmt("{\"C12\":%d}", int(e.assigns_with_size_change >= 2 || (!Cfg::HAS_VARYING && e.op_count["assign_element"] >= 2))));
        if (c - from < 2) j.raw("trace", jarr_str(e.trace));
        emit(j.str());
        if (v != 0 && c + 1 < to)
        {
            emit(J().kv("t", "bail").kv("next", c + 1).str());
            break;
        }
    }
    counters().add("elements_checked", e.elements_checked);
    emit(J().kv("t", "summary").raw("ops", Counters{e.op_count}.json()).raw("counters", counters().json()).kv("steps", steps).kv("avoided", 0).raw("prestate_op", "[]").kv("objects_constructed", registry().constructed).kv("objects_destroyed", registry().destroyed).kv("alloc_events", ledger().alloc_events).kv("dealloc_events", ledger().dealloc_events).str());
    return 0;
}
