// layout engine (C02 C03 C04 C05, plus C01/C10 values on the way): many parameter lists per binary. The layout arithmetic
// (parameterTraits / elementTraits) is quantified over parameter lists and alignment combinations, so this engine trades
// operation variety for configuration variety: per case one vector constructed for exactly (N, B), filled to exactly
// N elements / B bytes with an adversarial split, erase / refill, growing reserve and refill, copy, element extraction,
// with the per-vector monitors (containment in the allocator's block, AlignAs, order / overlap / counts, greedy layout,
// footprint) after every step. Only trivially copyable value types (the generated header lists the configurations).
#include "vf/vecmon.hpp"

using namespace vf;

namespace
{
using K = Kind<false, false, false, false>;
using Alloc = LedgerAlloc<std::byte, K>;

struct Stats
{
    uint64_t steps = 0, elements = 0;
    std::map<std::string, uint64_t> ops;
} stats;

template <class Cfg>
struct Runner
{
    using Vec = typename Cfg::template Vec<Alloc>;
    using E = typename Vec::value_type;
    using G = Glue<Cfg>;
    using Mon = VecMon<Cfg, Vec>;
    static constexpr size_t NF = Cfg::NF;

    static Vec construct(size_t n, size_t bytes, const std::vector<size_t>& fixed, int arena)
    {
        typename Vec::allocator_type alloc{arena};
        if constexpr (Cfg::N_FIXED != 0)
        {
            std::array<size_t, Cfg::N_FIXED> fs{};
            std::copy(fixed.begin(), fixed.end(), fs.begin());
            if constexpr (Cfg::N_VARYING != 0)
                return Vec(n, bytes, fs, alloc);
            else
                return Vec(n, fs, alloc);
        }
        else if constexpr (Cfg::N_VARYING != 0)
            return Vec(n, bytes, alloc);
        else
            return Vec(n, alloc);
    }

    static void check_element(const E& e, const MElem& me, int arena, const char* op)
    {
        const auto& fields = Cfg::fields();
        if (!elem_match(me, G::read(e))) violation("C12,C01", "element_value_mismatch", fmt("element: got %s expected %s", elem_str(G::read(e)).c_str(), elem_str(me).c_str()), op, "element");
        const auto a = G::addresses(e);
        const Block* blk = ledger().find_live(a[0].begin);
        bool zero = true;
        for (size_t k = 0; k < NF; ++k) zero = zero && fields[k].kind == 'F' && me.f[k].empty();
        if (zero && !blk) return;
        if (!blk)
        {
            violation("C02,C12", "element_outside_allocator_memory", fmt("element: first field at %#zx is not inside a live block", size_t(a[0].begin)), op, "element");
            return;
        }
        (void)arena;
        uintptr_t prev_end = blk->base;
        for (size_t k = 0; k < NF; ++k)
        {
            const uintptr_t b = a[k].begin, en = b + a[k].count * fields[k].size;
            if (b < blk->base || en > blk->base + blk->bytes) violation("C02,C12", "object_outside_block", fmt("element field %zu: [%#zx,%#zx) outside the block [%#zx,+%zu)", k, size_t(b), size_t(en), size_t(blk->base), blk->bytes), op, "element");
            if (fields[k].align_declared && a[k].count != 0 && b % fields[k].align != 0) violation("C03,C12", "misaligned_object", fmt("element field %zu (AlignAs %zu): address %#zx", k, fields[k].align, size_t(b)), op, "element");
            if (k != 0 && b < prev_end) violation("C04,C12", "fields_overlap_or_out_of_order", fmt("element field %zu begins at %#zx before the end %#zx of the previous field", k, size_t(b), size_t(prev_end)), op, "element");
            const uintptr_t expect = k == 0 ? blk->base : align_up(prev_end, fields[k].align);
            if (b != expect) violation("C05,C12", "field_not_tightly_packed", fmt("element field %zu: starts at %#zx, expected %#zx", k, size_t(b), size_t(expect)), op, "element");
            prev_end = en;
        }
    }

    static void run(const char* cfg_str, Rng& rng, int64_t cno, size_t max_cap, size_t max_span, std::vector<std::string>& trace, bool& nontrivial)
    {
        const auto& fields = Cfg::fields();
        uint64_t next_id = 1;
        int step = 0;
        // source form of the spans handed to emplace_back (see Glue::emplace_back): mostly std::vector<T>&&
        auto src_form = [&](uint64_t id) { return (id + static_cast<uint64_t>(cno)) % 4 == 1 ? 1 : (id + static_cast<uint64_t>(cno)) % 4 == 3 ? 2 : 0; };
        auto ctx = [&](const char* op, const std::string& args)
        {
            set_ctx(cno, step++, op, cfg_str, (std::string("C02,C03,C04,C05,C01") + (out().extra_props[0] ? "," : "") + out().extra_props).c_str(), args.c_str());
            ++stats.ops[op];
            ++stats.steps;
            if (trace.size() < 40) trace.push_back(std::string(op) + "(" + args + ")");
            if (out().verbose) emit(J().kv("t", "op").kv("case", cno).kv("op", std::string(op) + "(" + args + ")").str());
        };
        MVec m;
        m.exists = true;
        m.cap = rng.chance(1, 12) ? 0 : 1 + static_cast<size_t>(rng.below(max_cap));
        for (size_t i = 0; i < Cfg::N_FIXED; ++i) m.fixed.push_back(rng.chance(1, 6) ? 0 : static_cast<size_t>(rng.below(max_span > 20 ? max_span : 5)));  // long spans only in the 'big' units (blocks of 16 KiB and more, offsets of 256 and more inside an element)
        m.arena = 1;
        // plan the elements first: the vector is constructed for exactly their payload
        const int style = static_cast<int>(rng.below(5));
        // per VaryingSize parameter: what its count parameter can hold, and the size of its items
        std::vector<size_t> vmax, vsize;
        {
            size_t cmax = static_cast<size_t>(-1) / 2;
            for (auto& f : fields)
            {
                if (f.kind == 'C') cmax = count_type_max(f.tname);
                if (f.kind == 'V')
                {
                    vmax.push_back(cmax);
                    vsize.push_back(f.size);
                }
            }
        }
        // one element of some cases gets a count from the upper half of a narrow count type (128..255 for uint8_t, 100..127 for
        // int8_t, above 32767 for 16-bit types): a count handled as the wrong (signed / narrower) type shows there
        const size_t big_elem = rng.chance(1, 5) && m.cap != 0 ? static_cast<size_t>(rng.below(m.cap)) : static_cast<size_t>(-1);
        std::vector<MElem> plan;
        for (size_t i = 0; i < m.cap; ++i)
        {
            std::vector<size_t> counts;
            for (size_t k = 0; k < Cfg::N_VARYING; ++k)
            {
                size_t c;
                switch (style)
                {
                    case 0: c = i == 0 ? max_span * 2 : 0; break;            // everything in the first element
                    case 1: c = i + 1 == m.cap ? max_span * 2 : 0; break;    // everything in the last element
                    case 2: c = (i + k) % 2 ? max_span : 0; break;           // alternating empty / large
                    case 3: c = (i * 3 + k * 5 + static_cast<size_t>(cno)) % (max_span + 1); break;  // sweeping residues
                    default: c = static_cast<size_t>(rng.below(max_span + 1));
                }
                if (i == big_elem)
                {
                    if (vmax[k] == 255) c = 128 + static_cast<size_t>(rng.below(128));
                    else if (vmax[k] == 127) c = 100 + static_cast<size_t>(rng.below(28));
                    // (16-bit count types: rarely, such spans make every later step of the case expensive to monitor)
                    else if (vmax[k] == 65535 && vsize[k] <= 2 && rng.chance(1, 24)) c = 32768 + static_cast<size_t>(rng.below(200));
                    else if (vmax[k] == 32767 && vsize[k] <= 2 && rng.chance(1, 24)) c = 32000 + static_cast<size_t>(rng.below(767));
                }
                c = std::min(c, vmax[k]);
                counts.push_back(c);
            }
            plan.push_back(G::make_model_elem(next_id++, m.fixed, counts));
        }
        size_t budget = 0;
        for (auto& e : plan) budget += Mon::payload(e);
        // a third of the vectors get spare payload budget: a later reserve with a smaller budget may then fit the old block
        m.budget = budget + (rng.chance(1, 3) ? static_cast<size_t>(rng.below(96)) : 0);
        ledger().placement = static_cast<int>(cno % 2);
        // the allocator's max_size(): three times what this vector can legitimately ask for
        auto request_bound = [&](size_t cap, size_t bytes)
        {
            std::vector<size_t> counts(NF, 1);
            size_t fi = 0;
            for (size_t k = 0; k < NF; ++k)
            {
                if (fields[k].kind == 'F') counts[k] = m.fixed[fi++];
                if (fields[k].kind == 'V') counts[k] = 0;
            }
            const Layout l = compute_layout(fields, counts);
            return (cap + 1) * (l.size + 2 * l.max_align * NF) + bytes + 64;
        };
        ledger().max_bytes = 3 * request_bound(m.cap, m.budget);
        ctx("construct", fmt("n=%zu,b=%zu,fixed=%s,style=%d", m.cap, m.budget, jarr_num(m.fixed).c_str(), style));
        std::optional<Vec> v;
        v.emplace(construct(m.cap, m.budget, m.fixed, m.arena));
        auto check = [&](const char* op) { return out().viol_in_case == 0 && Mon::check(*v, m, op, cfg_str, "v") && (ledger().check_all_canaries(), out().viol_in_case == 0); };
        if (!check("construct")) return;
        // in the C15 check (--focus C15) whatever is wrong right after an emplace_back into the fresh vector is C15's as well: the
        // stored objects must equal the source items whatever the list around the span looks like (empty spans included)
        const bool c15 = out().focus == "C15";
        for (auto& e : plan)
        {
            if (c15) out().extra_props = "C15";
            ctx("emplace_back", fmt("id=%" PRIu64 ",counts=%s,src=%d", e.id, jarr_num(counts_of(e)).c_str(), src_form(e.id)));
            G::emplace_back(*v, e, src_form(e.id));
            m.e.push_back(e);
            ++stats.elements;
            const bool ok = check("emplace_back");
            if (c15) out().extra_props = "";
            if (!ok) return;
        }
        if (m.cap >= 2) nontrivial = true;
        // erase / refill cycles that stay within (N, B)
        for (int cyc = 0; cyc < 2 && !m.e.empty(); ++cyc)
        {
            const size_t first = static_cast<size_t>(rng.below(m.e.size()));
            const size_t last = first + 1 + static_cast<size_t>(rng.below(m.e.size() - first));
            ctx("erase", fmt("first=%zu,last=%zu", first, last));
            if (last == first + 1 && rng.chance(1, 2))
                v->erase(v->begin() + static_cast<std::ptrdiff_t>(first));
            else
                v->erase(v->begin() + static_cast<std::ptrdiff_t>(first), v->begin() + static_cast<std::ptrdiff_t>(last));
            m.e.erase(m.e.begin() + static_cast<std::ptrdiff_t>(first), m.e.begin() + static_cast<std::ptrdiff_t>(last));
            if (!check("erase")) return;
            // refill to N elements and B bytes with a different split
            while (m.e.size() < m.cap)
            {
                size_t remaining = m.budget - Mon::payload(m);
                std::vector<size_t> counts;
                const bool last_slot = m.e.size() + 1 == m.cap;
                size_t cmax = static_cast<size_t>(-1) / 2;
                for (auto& f : fields)
                {
                    if (f.kind == 'C') cmax = count_type_max(f.tname);
                    if (f.kind != 'V') continue;
                    const size_t fit = std::min(remaining / f.size, cmax);  // the count parameter must be able to hold it
                    const size_t c = last_slot ? fit : static_cast<size_t>(rng.below(fit + 1));
                    counts.push_back(c);
                    remaining -= c * f.size;
                }
                MElem e = G::make_model_elem(next_id++, m.fixed, counts);
                ctx("emplace_back", fmt("refill id=%" PRIu64 ",counts=%s,src=%d", e.id, jarr_num(counts_of(e)).c_str(), src_form(e.id)));
                G::emplace_back(*v, e, src_form(e.id));
                m.e.push_back(e);
                ++stats.elements;
                if (!check("emplace_back")) return;
            }
        }
        // growing reserve at the current fill level, then fill to the new limits
        {
            const size_t keep = m.e.empty() ? 0 : static_cast<size_t>(rng.below(m.e.size() + 1));
            while (m.e.size() > keep)
            {
                ctx("pop_back", "");
                v->pop_back();
                m.e.pop_back();
            }
            const size_t n2 = m.cap + 1 + static_cast<size_t>(rng.below(4));
            size_t per = 0;
            for (auto& f : fields)
                if (f.kind == 'V') per += f.size;
            const size_t b2 = Mon::payload(m) + static_cast<size_t>(rng.below(per * max_span * 2 + 1));
            ledger().max_bytes = 3 * request_bound(n2, b2);
            ctx("reserve", fmt("n=%zu,b=%zu,size=%zu", n2, b2, m.e.size()));
            if constexpr (Cfg::N_VARYING != 0)
                v->reserve(n2, b2);
            else
                v->reserve(n2);
            m.cap = n2;
            m.budget = b2;
            m.fresh_block = true;
            if (std::as_const(*v).capacity() != n2) violation("C10", "reserve_capacity", fmt("capacity() == %zu after reserve(%zu)", std::as_const(*v).capacity(), n2), "reserve", cfg_str);
            if (!check("reserve")) return;
            out().extra_props = "C10";  // filling up to what reserve() promised
            while (m.e.size() < m.cap)
            {
                size_t remaining = m.budget - Mon::payload(m);
                std::vector<size_t> counts;
                const bool last_slot = m.e.size() + 1 == m.cap;
                size_t cmax = static_cast<size_t>(-1) / 2;
                for (auto& f : fields)
                {
                    if (f.kind == 'C') cmax = count_type_max(f.tname);
                    if (f.kind != 'V') continue;
                    const size_t fit = std::min(remaining / f.size, cmax);
                    const size_t c = last_slot ? fit : static_cast<size_t>(rng.below(std::min(fit, max_span * 2) + 1));
                    counts.push_back(c);
                    remaining -= c * f.size;
                }
                MElem e = G::make_model_elem(next_id++, m.fixed, counts);
                ctx("emplace_back", fmt("after reserve id=%" PRIu64 ",counts=%s,src=%d", e.id, jarr_num(counts_of(e)).c_str(), src_form(e.id)));
                G::emplace_back(*v, e, src_form(e.id));
                m.e.push_back(e);
                ++stats.elements;
                if (!check("emplace_back")) return;
            }
        }
        out().extra_props = "";
        // copy: same layout rules in another block; element extraction: same rules in a block of its own
        {
            ctx("copy_construct", "");
            Vec c(std::as_const(*v));
            MVec cm = m;
            cm.cap = std::as_const(c).capacity();
            if (out().viol_in_case == 0) Mon::check(c, cm, "copy_construct", cfg_str, "copy");
            if (!m.e.empty() && out().viol_in_case == 0)
            {
                const size_t idx = static_cast<size_t>(rng.below(m.e.size()));
                ctx("element_from_reference", fmt("idx=%zu", idx));
                E e(std::as_const(*v)[idx], typename E::allocator_type{2});
                check_element(e, m.e[idx], 2, "element_from_reference");
                E e2(e);
                check_element(e2, m.e[idx], 2, "element_copy");
            }
        }
        if (out().viol_in_case) return;
        ctx("destroy", "");
        v.reset();
        if (ledger().live_count() != 0) violation("C07", "block_leaked", fmt("%zu blocks still allocated", ledger().live_count()), "destroy", cfg_str);
    }
};

struct Entry
{
    const char* cfg;
    void (*fn)(const char*, Rng&, int64_t, size_t, size_t, std::vector<std::string>&, bool&);
};

template <class Tuple, size_t... I>
std::vector<Entry> entries_impl(std::index_sequence<I...>)
{
    return {Entry{VF_CFG_STRS[I], &Runner<std::tuple_element_t<I, Tuple>>::run}...};
}
}  // namespace

int main(int argc, char** argv)
{
    Args args(argc, argv);
    open_out(args);
    ledger().release_hook = registry_release_hook;
    const uint64_t seed = static_cast<uint64_t>(args.num("seed", 1));
    const int64_t from = args.num("from", 0), to = args.num("to", 10);
    const size_t max_cap = static_cast<size_t>(args.num("max-cap", 6));
    const size_t max_span = static_cast<size_t>(args.num("max-span", 5));
    const auto entries = entries_impl<VF_CFGS>(std::make_index_sequence<std::tuple_size_v<VF_CFGS>>{});
    emit(J().kv("t", "hello").kv("engine", "layout").kv("configs", static_cast<uint64_t>(entries.size())).str());
    for (int64_t c = from; c < to; ++c)
    {
        const Entry& en = entries[static_cast<size_t>(c) % entries.size()];
        emit(J().kv("t", "case_begin").kv("case", c).str());
        arm_case_watchdog(40);
        out().viol_in_case = 0;
        out().soft_in_case = 0;
        out().extra_props = "";
        Rng rng(mix(seed, static_cast<uint64_t>(c) + 0x1A7));
        ledger().junk = static_cast<int>((seed + static_cast<uint64_t>(c)) % 4);
        std::vector<std::string> trace;
        trace.push_back(std::string("configuration ") + en.cfg);
        bool nontrivial = false;
        en.fn(en.cfg, rng, c, max_cap, max_span, trace, nontrivial);
        const int v = out().viol_in_case;
        registry().reset();
        if (v == 0) ledger().reset(); else ledger().blocks.clear();
        uint64_t h = std::hash<std::string>{}(en.cfg);
        for (auto& t : trace) h = mix(h, std::hash<std::string>{}(t));
        J j;
        j.kv("t", "case_end").kv("case", c).kv("steps", static_cast<int64_t>(trace.size())).kv("viol", v).kv("hash", fmt("%016" PRIx64, h)).kv("cfg", en.cfg);
        j.raw("nt", fmt("{\"C02\":%d,\"C03\":%d,\"C04\":%d,\"C05\":%d,\"C10\":%d}", int(nontrivial), int(nontrivial), int(nontrivial), int(nontrivial), int(nontrivial)));
        if (c - from < 2) j.raw("trace", jarr_str(trace));
        emit(j.str());
        if (v != 0 && c + 1 < to)
        {
            emit(J().kv("t", "bail").kv("next", c + 1).str());
            break;
        }
    }
    counters().add("layout_elements_emplaced", stats.elements);
    counters().add("requests_over_reported_max_size", ledger().requests_over_max);  // 0 unless the bound of the engine is too tight
    std::vector<std::string> cfgs;
    for (auto& e : entries) cfgs.push_back(e.cfg);
    emit(J().kv("t", "summary").raw("ops", Counters{stats.ops}.json()).raw("counters", counters().json()).kv("steps", stats.steps).kv("avoided", 0).raw("prestate_op", "[]").raw("layout_configs", jarr_str(cfgs)).kv("objects_constructed", 0).kv("objects_destroyed", 0).kv("alloc_events", ledger().alloc_events).kv("dealloc_events", ledger().dealloc_events).str());
    return 0;
}
