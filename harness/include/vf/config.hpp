// Configurations: a parameter list is a pack of field descriptors; this header turns it into cntgs types and offers
// the typed glue (read / emplace / address walk / mutate) that every engine uses.
#pragma once

#include "vf/base.hpp"
#include "vf/ledger.hpp"
#include "vf/types.hpp"

#include <cntgs/contiguous.hpp>

#include <list>
#include <tuple>
#include <utility>

namespace vf
{
// A == 0: no AlignAs wrapper
template <class T, size_t A = 0>
struct P
{
};  // plain
template <class T, size_t A = 0>
struct C
{
};  // plain integral field that carries the count of the following V
template <class T, size_t A = 0>
struct F
{
};  // FixedSize
template <class T, size_t A = 0>
struct V
{
};  // VaryingSize

template <class T, size_t A>
using MaybeAligned = std::conditional_t<A == 0, T, cntgs::AlignAs<T, (A == 0 ? 1 : A)>>;

template <class D>
struct Desc;
template <class T, size_t A>
struct Desc<P<T, A>>
{
    using Type = T;
    using Param = MaybeAligned<T, A>;
    static constexpr char KIND = 'P';
    static constexpr size_t ALIGN = A;
};
template <class T, size_t A>
struct Desc<C<T, A>>
{
    using Type = T;
    using Param = MaybeAligned<T, A>;
    static constexpr char KIND = 'C';
    static constexpr size_t ALIGN = A;
    static_assert(std::is_integral_v<T>);
};
template <class T, size_t A>
struct Desc<F<T, A>>
{
    using Type = T;
    using Param = cntgs::FixedSize<MaybeAligned<T, A>>;
    static constexpr char KIND = 'F';
    static constexpr size_t ALIGN = A;
};
template <class T, size_t A>
struct Desc<V<T, A>>
{
    using Type = T;
    using Param = cntgs::VaryingSize<MaybeAligned<T, A>>;
    static constexpr char KIND = 'V';
    static constexpr size_t ALIGN = A;
};

struct FieldInfo
{
    char kind;           // P C F V
    size_t size;         // sizeof(T)
    size_t align;        // effective alignment the library promises: AlignAs value or 1
    bool align_declared;
    bool tracked;
    bool trivially_copyable;
    const char* tname;
    bool is_span() const { return kind == 'F' || kind == 'V'; }
};

template <size_t... I, class Fn>
constexpr void for_each_index_impl(std::index_sequence<I...>, Fn&& fn)
{
    (fn(std::integral_constant<size_t, I>{}), ...);
}
template <size_t N, class Fn>
constexpr void for_each_index(Fn&& fn)
{
    for_each_index_impl(std::make_index_sequence<N>{}, std::forward<Fn>(fn));
}

template <class... D>
struct Config
{
    static constexpr size_t NF = sizeof...(D);
    using Descs = std::tuple<Desc<D>...>;
    template <size_t I>
    using DescAt = std::tuple_element_t<I, Descs>;
    template <size_t I>
    using TypeAt = typename DescAt<I>::Type;

    template <class Alloc>
    using Vec = cntgs::BasicContiguousVector<cntgs::Options<cntgs::Allocator<Alloc>>, typename Desc<D>::Param...>;

    static constexpr size_t N_FIXED = ((Desc<D>::KIND == 'F' ? 1 : 0) + ... + 0);
    static constexpr size_t N_VARYING = ((Desc<D>::KIND == 'V' ? 1 : 0) + ... + 0);
    static constexpr bool HAS_VARYING = N_VARYING != 0;
    static constexpr bool ALL_TRIVIALLY_COPYABLE = (std::is_trivially_copyable_v<typename Desc<D>::Type> && ...);
    static constexpr bool ALL_COPYABLE = (std::is_copy_constructible_v<typename Desc<D>::Type> && ...);
    static constexpr bool ALL_COPY_ASSIGNABLE = (std::is_copy_assignable_v<typename Desc<D>::Type> && ...);
    static constexpr bool HAS_TRACKED = (IsTracked<typename Desc<D>::Type>::value || ...);
    static constexpr bool HAS_UNIQUE_PTR = (std::is_same_v<typename Desc<D>::Type, std::unique_ptr<int>> || ...);  // compared by address
    static constexpr size_t N_TRACKED_FIELDS = ((IsTracked<typename Desc<D>::Type>::value ? 1 : 0) + ... + 0);
    static constexpr bool ANY_ALIGN = ((Desc<D>::ALIGN != 0) || ...);
    static constexpr size_t MAX_ALIGN = std::max({size_t{1}, Desc<D>::ALIGN...});
    // value types whose own members never call operator new (C07's bypass detector is armed only then)
    static constexpr bool VALUES_NEVER_ALLOCATE =
        ((std::is_trivially_copyable_v<typename Desc<D>::Type> || IsTracked<typename Desc<D>::Type>::value) && ...);

    static const std::array<FieldInfo, NF>& fields()
    {
        static const std::array<FieldInfo, NF> f{FieldInfo{Desc<D>::KIND, sizeof(typename Desc<D>::Type), Desc<D>::ALIGN == 0 ? size_t{1} : Desc<D>::ALIGN, Desc<D>::ALIGN != 0, IsTracked<typename Desc<D>::Type>::value, std::is_trivially_copyable_v<typename Desc<D>::Type>, type_name<typename Desc<D>::Type>()}...};
        return f;
    }

    static std::string category()
    {
        std::string s = N_FIXED == 0 && N_VARYING == 0 ? "plain" : N_VARYING == 0 ? "fixed" : N_FIXED == 0 ? "varying" : "mixed";
        s += ANY_ALIGN ? "+align" : "";
        s += ALL_TRIVIALLY_COPYABLE ? "+trivial" : ALL_COPYABLE ? "+nontrivial" : "+moveonly";
        return s;
    }
};

// ------------------------------------------------------------------------------------------------ model element
// a wider arithmetic type every value of T converts to and back from exactly (T itself when there is none)
template <class T, class = void>
struct Wider
{
    using type = T;
};
template <class T>
struct Wider<T, std::enable_if_t<std::is_integral_v<T> && !std::is_same_v<T, bool> && (sizeof(T) < 8)>>
{
    using type = std::conditional_t<std::is_signed_v<T>, int64_t, uint64_t>;
};
template <>
struct Wider<BasePtr, void>  // not wider, but another source type whose conversion is not a copy of the bits
{
    using type = Derived*;
};
template <>
struct Wider<float, void>
{
    using type = double;
};

struct MElem
{
    uint64_t id{};
    std::vector<std::vector<int64_t>> f;  // field -> items (plain fields have one item)
    bool operator==(const MElem& o) const { return f == o.f; }
};

// largest count the count parameter in front of a VaryingSize parameter can hold (by type_name())
inline size_t count_type_max(const char* tname)
{
    const std::string t = tname;
    if (t == "u8") return 255;
    if (t == "i8") return 127;
    if (t == "u16") return 65535;
    if (t == "i16") return 32767;
    if (t == "u32") return 4294967295u;
    if (t == "i32") return 2147483647;
    return static_cast<size_t>(-1) / 2;
}

// number of stored objects of the value type with the given name (type_name()) in a model element
template <class Fields>
size_t objects_of_type(const Fields& fields, const std::vector<std::vector<int64_t>>& f, const char* tname)
{
    size_t n = 0;
    for (size_t k = 0; k < f.size(); ++k)
        if (std::string(fields[k].tname) == tname) n += f[k].size();
    return n;
}

inline bool values_match(const std::vector<int64_t>& expected, const std::vector<int64_t>& got)
{
    if (expected.size() != got.size()) return false;
    for (size_t i = 0; i < expected.size(); ++i)
        if (expected[i] != DONT_CARE && expected[i] != got[i]) return false;
    return true;
}

inline bool elem_match(const MElem& expected, const MElem& got)
{
    if (expected.f.size() != got.f.size()) return false;
    for (size_t i = 0; i < expected.f.size(); ++i)
        if (!values_match(expected.f[i], got.f[i])) return false;
    return true;
}

inline std::string elem_str(const MElem& e)
{
    std::string s = "(";
    for (size_t i = 0; i < e.f.size(); ++i)
    {
        if (i) s += " ";
        s += "[";
        for (size_t k = 0; k < e.f[i].size(); ++k)
        {
            if (k) s += ",";
            s += e.f[i][k] == DONT_CARE ? "*" : std::to_string(e.f[i][k]);
        }
        s += "]";
    }
    return s + ")";
}

// ------------------------------------------------------------------------------------------------ typed glue
template <class Cfg>
struct Glue
{
    static constexpr size_t NF = Cfg::NF;

    // values of a new element: unique per (element id, field, item) where the type is wide enough
    static MElem make_model_elem(uint64_t id, const std::vector<size_t>& fixed_sizes, const std::vector<size_t>& varying_counts)
    {
        MElem m;
        m.id = id;
        m.f.resize(NF);
        size_t fi = 0, vi = 0;
        for_each_index<NF>(
            [&](auto I)
            {
                using Dc = typename Cfg::template DescAt<I>;
                using T = typename Dc::Type;
                size_t n = 1;
                if constexpr (Dc::KIND == 'F') n = fixed_sizes[fi++];
                if constexpr (Dc::KIND == 'V') n = varying_counts[vi++];
                for (size_t k = 0; k < n; ++k)
                {
                    if constexpr (Dc::KIND == 'C')
                        m.f[I].push_back(static_cast<int64_t>(varying_counts[vi]));  // count of the V that follows
                    else
                        m.f[I].push_back(project<T>(static_cast<int64_t>(id * 64 + I * 8 + (k % 8))));
                }
            });
        return m;
    }

    template <class Ref>
    static MElem read(const Ref& r)
    {
        MElem m;
        m.f.resize(NF);
        for_each_index<NF>(
            [&](auto I)
            {
                using Dc = typename Cfg::template DescAt<I>;
                using T = typename Dc::Type;
                auto&& x = cntgs::get<I>(r);
                if constexpr (Dc::KIND == 'F' || Dc::KIND == 'V')
                {
                    for (auto& it : x) m.f[I].push_back(Codec<T>::read(it));
                }
                else
                    m.f[I].push_back(Codec<T>::read(x));
            });
        return m;
    }

    struct FieldAddr
    {
        uintptr_t begin;
        size_t count;
    };

    template <class Ref>
    static std::array<FieldAddr, NF> addresses(const Ref& r)
    {
        std::array<FieldAddr, NF> a{};
        for_each_index<NF>(
            [&](auto I)
            {
                using Dc = typename Cfg::template DescAt<I>;
                auto&& x = cntgs::get<I>(r);
                if constexpr (Dc::KIND == 'F' || Dc::KIND == 'V')
                    a[I] = FieldAddr{reinterpret_cast<uintptr_t>(x.data()), x.size()};
                else
                    a[I] = FieldAddr{reinterpret_cast<uintptr_t>(std::addressof(x)), 1};
            });
        return a;
    }

    // Form of the source handed to emplace_back for span parameters (the values are the same in every form):
    //   0  std::vector<T>&&   1  const std::vector<T>&   2  a contiguous range of a WIDER arithmetic type (uint16_t items from
    //   std::vector<uint64_t>, float items from std::vector<double>): every item converts exactly, and a byte-copying fast
    //   path that forgets the widths writes sizeof(source item) bytes per item
    static constexpr int EMPLACE_FORMS = 3;

    template <size_t I, int Form>
    static auto make_arg(const std::vector<int64_t>& items)
    {
        using Dc = typename Cfg::template DescAt<I>;
        using T = typename Dc::Type;
        if constexpr (Dc::KIND == 'F' || Dc::KIND == 'V')
        {
            using S = std::conditional_t<Form == 2, typename Wider<T>::type, T>;
            std::vector<S> v;
            v.reserve(items.size());
            for (auto x : items)
            {
                if constexpr (std::is_same_v<S, T>)
                    v.push_back(Codec<T>::make(x));
                else
                    v.push_back(static_cast<S>(Codec<T>::make(x)));
            }
            return v;
        }
        else
            return Codec<T>::make(items[0]);
    }

    template <int Form, class A>
    static decltype(auto) pass_arg(A& a)
    {
        if constexpr (Form == 1)
            return static_cast<const A&>(a);
        else
            return std::move(a);
    }

    template <int Form, class Vec, size_t... I>
    static void emplace_back_impl(Vec& v, const MElem& m, std::index_sequence<I...>)
    {
        auto args = std::tuple<decltype(make_arg<I, Form>(m.f[I]))...>{make_arg<I, Form>(m.f[I])...};
#ifndef VF_NO_LIBCALL  // the multi-threaded race engine must not touch the (single-threaded) ledger
        LibCall lc;  // the arguments are built outside: only the library call itself is watched for operator new
#endif
        v.emplace_back(pass_arg<Form>(std::get<I>(args))...);
    }

    template <class Vec>
    static void emplace_back(Vec& v, const MElem& m, int form = 0)
    {
        if constexpr (Cfg::ALL_COPYABLE)
        {
            if (form == 1) return emplace_back_impl<1>(v, m, std::make_index_sequence<NF>{});
        }
        if (form == 2) return emplace_back_impl<2>(v, m, std::make_index_sequence<NF>{});
        emplace_back_impl<0>(v, m, std::make_index_sequence<NF>{});
    }

    // write one item through a (mutable) reference
    template <class Ref>
    static void set_item(const Ref& r, size_t field, size_t item, int64_t value)
    {
        for_each_index<NF>(
            [&](auto I)
            {
                if (I != field) return;
                using Dc = typename Cfg::template DescAt<I>;
                using T = typename Dc::Type;
                auto&& x = cntgs::get<I>(r);
                if constexpr (Dc::KIND == 'F' || Dc::KIND == 'V')
                    x[item] = Codec<T>::make(value);
                else if constexpr (Dc::KIND == 'P')
                    x = Codec<T>::make(value);
            });
    }

    static int64_t project_field(size_t field, int64_t v)
    {
        int64_t r = v;
        for_each_index<NF>(
            [&](auto I)
            {
                if (I != field) return;
                using T = typename Cfg::template TypeAt<I>;
                r = project<T>(v);
            });
        return r;
    }

    static int64_t moved_value(size_t field, int64_t v)
    {
        int64_t r = v;
        for_each_index<NF>(
            [&](auto I)
            {
                if (I != field) return;
                using T = typename Cfg::template TypeAt<I>;
                r = Codec<T>::moved(v);
            });
        return r;
    }
};

// ------------------------------------------------------------------------------------------------ layout oracle
// Independent of the implementation: greedy layout from kinds, sizes, alignments and counts.
struct Layout
{
    std::vector<size_t> offset;  // per field, relative to the element start (which is aligned to max_align)
    size_t size{};               // end of the last field
    size_t max_align{1};
};

inline size_t align_up(size_t x, size_t a) { return a <= 1 ? x : (x + a - 1) / a * a; }

template <size_t NF>
Layout compute_layout(const std::array<FieldInfo, NF>& fields, const std::vector<size_t>& counts)
{
    Layout l;
    l.offset.resize(NF);
    size_t end = 0;
    for (size_t i = 0; i < NF; ++i)
    {
        l.max_align = std::max(l.max_align, fields[i].align);
        const size_t start = align_up(end, fields[i].align);
        l.offset[i] = start;
        end = start + fields[i].size * counts[i];
    }
    l.size = end;
    return l;
}

inline std::vector<size_t> counts_of(const MElem& m)
{
    std::vector<size_t> c;
    for (auto& f : m.f) c.push_back(f.size());
    return c;
}
}  // namespace vf
