// Common plumbing of every engine: PRNG, JSON lines, violation reporter, death handler, argument parsing.
// Header-only on purpose: each engine is a single translation unit.
#pragma once

#include <algorithm>
#include <array>
#include <cinttypes>
#include <csignal>
#include <cstdarg>
#include <cstdint>
#include <cstdio>
#include <cstdlib>
#include <cstring>
#include <map>
#include <set>
#include <string>
#include <sys/time.h>
#include <unistd.h>
#include <vector>

#if defined(__SANITIZE_ADDRESS__)
#define VF_ASAN 1
#elif defined(__has_feature)
#if __has_feature(address_sanitizer)
#define VF_ASAN 1
#endif
#endif
#ifndef VF_ASAN
#define VF_ASAN 0
#endif

#if defined(__SANITIZE_THREAD__)
#define VF_TSAN 1
#elif defined(__has_feature)
#if __has_feature(thread_sanitizer)
#define VF_TSAN 1
#endif
#endif
#ifndef VF_TSAN
#define VF_TSAN 0
#endif

#if VF_ASAN
#include <sanitizer/asan_interface.h>
#endif

namespace vf
{
// ------------------------------------------------------------------------------------------------ rng
struct Rng
{
    uint64_t s;
    explicit Rng(uint64_t seed = 1) : s(seed * 0x9E3779B97F4A7C15ull + 0x632BE59BD9B4E019ull) {}
    uint64_t next()
    {
        uint64_t z = (s += 0x9E3779B97F4A7C15ull);
        z = (z ^ (z >> 30)) * 0xBF58476D1CE4E5B9ull;
        z = (z ^ (z >> 27)) * 0x94D049BB133111EBull;
        return z ^ (z >> 31);
    }
    uint64_t below(uint64_t n) { return n == 0 ? 0 : next() % n; }
    int64_t range(int64_t lo, int64_t hi) { return lo + static_cast<int64_t>(below(static_cast<uint64_t>(hi - lo + 1))); }
    bool chance(unsigned num, unsigned den) { return below(den) < num; }
    template <class T>
    const T& pick(const std::vector<T>& v)
    {
        return v[below(v.size())];
    }
};

inline uint64_t mix(uint64_t a, uint64_t b)
{
    Rng r(a ^ (b * 0xD6E8FEB86659FD93ull));
    r.next();
    return r.next();
}

// ------------------------------------------------------------------------------------------------ json
inline std::string jesc(const std::string& in)
{
    std::string o;
    o.reserve(in.size() + 2);
    for (unsigned char c : in)
    {
        switch (c)
        {
            case '"': o += "\\\""; break;
            case '\\': o += "\\\\"; break;
            case '\n': o += "\\n"; break;
            case '\t': o += "\\t"; break;
            default:
                if (c < 0x20)
                {
                    char b[8];
                    snprintf(b, sizeof b, "\\u%04x", c);
                    o += b;
                }
                else
                    o += static_cast<char>(c);
        }
    }
    return o;
}

struct J
{
    std::string s{"{"};
    bool first{true};
    void key(const char* k)
    {
        if (!first) s += ",";
        first = false;
        s += "\"";
        s += k;
        s += "\":";
    }
    J& kv(const char* k, const std::string& v)
    {
        key(k);
        s += "\"" + jesc(v) + "\"";
        return *this;
    }
    J& kv(const char* k, const char* v) { return kv(k, std::string(v)); }
    J& kv(const char* k, int64_t v)
    {
        key(k);
        s += std::to_string(v);
        return *this;
    }
    J& kv(const char* k, uint64_t v)
    {
        key(k);
        s += std::to_string(v);
        return *this;
    }
    J& kv(const char* k, int v) { return kv(k, static_cast<int64_t>(v)); }
    J& kv(const char* k, unsigned v) { return kv(k, static_cast<uint64_t>(v)); }
    J& kv(const char* k, bool v)
    {
        key(k);
        s += v ? "true" : "false";
        return *this;
    }
    J& raw(const char* k, const std::string& rawjson)
    {
        key(k);
        s += rawjson;
        return *this;
    }
    std::string str() const { return s + "}"; }
};

template <class C, class F>
std::string jarr(const C& c, F f)
{
    std::string s = "[";
    bool first = true;
    for (auto&& x : c)
    {
        if (!first) s += ",";
        first = false;
        s += f(x);
    }
    return s + "]";
}

inline std::string jarr_str(const std::vector<std::string>& v)
{
    return jarr(v, [](const std::string& x) { return "\"" + jesc(x) + "\""; });
}

template <class C>
std::string jarr_num(const C& c)
{
    return jarr(c, [](auto x) { return std::to_string(x); });
}

inline std::string fmt(const char* f, ...)
{
    char buf[2048];
    va_list ap;
    va_start(ap, f);
    vsnprintf(buf, sizeof buf, f, ap);
    va_end(ap);
    return buf;
}

// ------------------------------------------------------------------------------------------------ output + context
struct Out
{
    int fd = 1;
    // context of the running operation, kept pre-formatted so that a signal handler can write it
    char ctx[1536] = "{\"t\":\"death\",\"case\":-1}\n";
    size_t ctx_len = 0;
    int64_t cur_case = -1;
    int64_t cur_step = -1;
    int viol_in_case = 0;
    int soft_in_case = 0;
    uint64_t viol_total = 0;
    bool verbose = false;
    char cur_op[48] = "";
    char cur_pre[64] = "";
    char cur_x[160] = "";
    std::string focus;  // property under check: violations owned only by other properties do not cut the case
    const char* extra_props = "";  // appended to the owners of every violation (the fault engine: everything is C17's)
};

inline Out& out()
{
    static Out o;
    return o;
}

inline void emit(const std::string& line)
{
    std::string l = line + "\n";
    size_t off = 0;
    while (off < l.size())
    {
        ssize_t n = ::write(out().fd, l.data() + off, l.size() - off);
        if (n <= 0) break;
        off += static_cast<size_t>(n);
    }
}

// props: comma separated property ids owning a death while this op runs
inline void set_ctx(int64_t case_no, int64_t step, const char* op, const char* prestate, const char* death_props,
                    const char* extra = "")
{
    Out& o = out();
    o.cur_case = case_no;
    o.cur_step = step;
    snprintf(o.cur_op, sizeof o.cur_op, "%s", op);
    snprintf(o.cur_pre, sizeof o.cur_pre, "%s", prestate);
    snprintf(o.cur_x, sizeof o.cur_x, "%s", extra);
    int n = snprintf(o.ctx, sizeof o.ctx,
                     "{\"t\":\"death\",\"case\":%" PRId64 ",\"step\":%" PRId64
                     ",\"op\":\"%s\",\"pre\":\"%s\",\"props\":\"%s\",\"x\":\"%s\"}\n",
                     case_no, step, op, prestate, death_props, extra);
    o.ctx_len = n < 0 ? 0 : std::min(static_cast<size_t>(n), sizeof o.ctx - 1);
}

// A monitor found the property violated (or, with props of other properties, a cross-note for the property under check).
// Raised while harness code runs inside a library call (allocator, value-type callbacks, reporter): its own use of
// operator new must not be mistaken for the library bypassing the allocator (C07).
struct HarnessScope
{
    static int& depth()
    {
        static int d = 0;
        return d;
    }
    HarnessScope() { ++depth(); }
    ~HarnessScope() { --depth(); }
};

// soft: the observation does not make the state suspect (e.g. a footprint that is too large); the case goes on
inline void violation(const char* props, const char* kind, const std::string& detail, const char* op = "",
                      const char* prestate = "", bool soft = false)
{
    HarnessScope hs;
    Out& o = out();
    // the check for one property keeps going after another property's monitor fired (the same defect often violates
    // several properties, and this one's evidence may only come later); deaths still end the case
    if (!soft && !o.focus.empty() && !strstr(props, o.focus.c_str()) && !(o.extra_props[0] && o.focus == o.extra_props)) soft = true;
    if (soft)
    {
        if (++o.soft_in_case > 4) return;
    }
    else
    {
        ++o.viol_in_case;
        ++o.viol_total;
        if (o.viol_in_case > 8) return;  // state is suspect after the first one; do not flood
    }
    emit(J().kv("t", "viol")
             .kv("case", o.cur_case)
             .kv("step", o.cur_step)
             .kv("props", o.extra_props[0] && !strstr(props, o.extra_props) ? std::string(props) + "," + o.extra_props : std::string(props))
             .kv("kind", kind)
             .kv("op", op[0] ? op : o.cur_op)
             .kv("pre", prestate[0] ? prestate : o.cur_pre)
             .kv("x", o.cur_x)
             .kv("soft", soft)
             .kv("detail", detail)
             .str());
}

inline void death_handler(int sig)
{
    Out& o = out();
    const char* name = sig == SIGSEGV ? "SIGSEGV" : sig == SIGABRT ? "SIGABRT" : sig == SIGBUS ? "SIGBUS" : sig == SIGFPE ? "SIGFPE" : sig == SIGILL ? "SIGILL" : "SIG";
    char head[64];
    int n = snprintf(head, sizeof head, "{\"t\":\"signal\",\"sig\":\"%s\"}\n", name);
    if (n > 0) (void)!::write(o.fd, head, static_cast<size_t>(n));
    (void)!::write(o.fd, o.ctx, o.ctx_len ? o.ctx_len : strlen(o.ctx));
    signal(sig, SIG_DFL);
    raise(sig);
}

// CPU-time watchdog per case: a case normally needs milliseconds of CPU; one that burns tens of seconds is an endless loop
// (e.g. over corrupted bookkeeping). CPU time, not wall-clock time, so that a loaded machine cannot trip it.
inline void watchdog_handler(int)
{
    Out& o = out();
    static const char head[] = "{\"t\":\"signal\",\"sig\":\"CPU-WATCHDOG\"}\n";
    (void)!::write(o.fd, head, sizeof head - 1);
    (void)!::write(o.fd, o.ctx, o.ctx_len ? o.ctx_len : strlen(o.ctx));
    _exit(97);
}

inline void arm_case_watchdog(int cpu_seconds)
{
    static bool installed = false;
    if (!installed)
    {
        signal(SIGPROF, watchdog_handler);
        installed = true;
    }
    struct itimerval t;
    t.it_interval.tv_sec = 0;
    t.it_interval.tv_usec = 0;
    t.it_value.tv_sec = cpu_seconds;
    t.it_value.tv_usec = 0;
    setitimer(ITIMER_PROF, &t, nullptr);
}

inline void install_death_handlers()
{
    // under ASan the runtime's own SEGV handler prints the report and then aborts (abort_on_error=1): catch only SIGABRT there
    signal(SIGABRT, death_handler);
#if !VF_ASAN && !VF_TSAN
    signal(SIGSEGV, death_handler);
    signal(SIGBUS, death_handler);
    signal(SIGFPE, death_handler);
    signal(SIGILL, death_handler);
#endif
}

// ------------------------------------------------------------------------------------------------ args
struct Args
{
    std::map<std::string, std::string> kv;
    Args(int argc, char** argv)
    {
        for (int i = 1; i < argc; ++i)
        {
            std::string a = argv[i];
            if (a.rfind("--", 0) == 0)
            {
                auto eq = a.find('=');
                if (eq != std::string::npos)
                    kv[a.substr(2, eq - 2)] = a.substr(eq + 1);
                else if (i + 1 < argc && std::string(argv[i + 1]).rfind("--", 0) != 0)
                {
                    kv[a.substr(2)] = argv[i + 1];
                    ++i;
                }
                else
                    kv[a.substr(2)] = "1";
            }
        }
    }
    int64_t num(const char* k, int64_t d) const
    {
        auto it = kv.find(k);
        return it == kv.end() ? d : strtoll(it->second.c_str(), nullptr, 10);
    }
    std::string str(const char* k, const char* d) const
    {
        auto it = kv.find(k);
        return it == kv.end() ? d : it->second;
    }
    bool has(const char* k) const { return kv.count(k) != 0; }
};

inline void open_out(const Args& a)
{
    if (a.has("out-fd")) out().fd = static_cast<int>(a.num("out-fd", 1));
    out().focus = a.str("focus", "");
    out().verbose = a.has("verbose");
    install_death_handlers();
}

// counters reported as evidence
struct Counters
{
    std::map<std::string, uint64_t> c;
    void add(const std::string& k, uint64_t n = 1) { c[k] += n; }
    std::string json() const
    {
        std::string s = "{";
        bool first = true;
        for (auto& [k, v] : c)
        {
            if (!first) s += ",";
            first = false;
            s += "\"" + jesc(k) + "\":" + std::to_string(v);
        }
        return s + "}";
    }
};

inline Counters& counters()
{
    static Counters c;
    return c;
}
}  // namespace vf
