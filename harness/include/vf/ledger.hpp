// Ledger allocator: every allocate/deallocate of every rebound copy is recorded with allocator identity (arena).
// Blocks have exactly the requested size, sit at a least-aligned address, are surrounded by poisoned + canary slack,
// start out filled with junk and stay quarantined (poisoned) after deallocation until the case ends.
#pragma once

#include "vf/base.hpp"

#include <memory>
#include <new>
#include <type_traits>

namespace vf
{
enum Tag : int
{
    TAG_DATA = 0,   // vector / element storage (Aligned<N> or std::byte)
    TAG_TABLE = 1,  // std::size_t address table
    TAG_OTHER = 2
};

struct Block
{
    uintptr_t base{};
    size_t bytes{};
    int arena{};
    int tag{};
    size_t align{};
    unsigned char* raw{};
    size_t raw_bytes{};
    bool live{};
    uint64_t seq{};
    int64_t step{};
};

struct Ledger
{
    static constexpr size_t SLACK = 192;
    static constexpr unsigned char CANARY = 0xCB;

    std::map<uintptr_t, Block> blocks;  // keyed by base; live and quarantined
    std::vector<Block> zero_blocks_dead;  // not needed for lookup, kept for freeing
    uint64_t seq = 0;
    uint64_t alloc_events = 0;
    uint64_t dealloc_events = 0;
    uint64_t bytes_allocated = 0;
    int64_t fail_countdown = -1;  // >=0: number of allocations that still succeed before one throws
    uint64_t faults_injected = 0;
    int placement = 0;  // 0: least aligned, 1: at least 8-aligned
    int junk = 0;       // 0: 0x00  1: 0xFF  2: 0xA5  3: prng
    Rng junk_rng{12345};
    bool in_library_call = false;  // raised around library calls (C07: operator new bypass detection)
    uint64_t new_in_library_call = 0;  // operator new reached from inside a library call, not through harness code
    void (*release_hook)(uintptr_t base, size_t bytes) = nullptr;
    // what LedgerAlloc::max_size() reports, in bytes (an engine that knows how much a case can legitimately request sets it
    // to a small multiple of that: a library that consults max_size() must get the units right)
    size_t max_bytes = static_cast<size_t>(-1) / 4;
    uint64_t requests_over_max = 0;

    static Ledger& get()
    {
        static Ledger l;
        return l;
    }

#if VF_ASAN
    static void poison(const void* p, size_t n) { __asan_poison_memory_region(p, n); }
    static void unpoison(const void* p, size_t n) { __asan_unpoison_memory_region(p, n); }
#else
    static void poison(const void*, size_t) {}
    static void unpoison(const void*, size_t) {}
#endif

    void* allocate(int arena, int tag, size_t bytes, size_t align)
    {
        HarnessScope hs;
        ++alloc_events;
        if (fail_countdown >= 0)
        {
            if (fail_countdown == 0)
            {
                fail_countdown = -1;
                ++faults_injected;
                throw std::bad_alloc();
            }
            --fail_countdown;
        }
        if (bytes > max_bytes) ++requests_over_max;
        const size_t a = align < 1 ? 1 : align;
        const size_t raw_bytes = bytes + 2 * SLACK + 4 * a + 32;
        auto* raw = static_cast<unsigned char*>(std::malloc(raw_bytes));
        if (!raw) throw std::bad_alloc();
        uintptr_t p = reinterpret_cast<uintptr_t>(raw) + SLACK;
        if (placement == 0)
        {
            // aligned to exactly `a` and no more: p = a (mod 2a)
            p = (p + 2 * a - 1) / (2 * a) * (2 * a) + a;
        }
        else
        {
            const size_t b = a < 8 ? 8 : a;
            p = (p + b - 1) / b * b;
        }
        std::memset(raw, CANARY, raw_bytes);
        auto* blockp = reinterpret_cast<unsigned char*>(p);
        switch (junk)
        {
            case 0: std::memset(blockp, 0x00, bytes); break;
            case 1: std::memset(blockp, 0xFF, bytes); break;
            case 2: std::memset(blockp, 0xA5, bytes); break;
            default:
                for (size_t i = 0; i < bytes; ++i) blockp[i] = static_cast<unsigned char>(junk_rng.next());
        }
        poison(raw, p - reinterpret_cast<uintptr_t>(raw));
        poison(blockp + bytes, raw + raw_bytes - (blockp + bytes));
        Block b;
        b.base = p;
        b.bytes = bytes;
        b.arena = arena;
        b.tag = tag;
        b.align = a;
        b.raw = raw;
        b.raw_bytes = raw_bytes;
        b.live = true;
        b.seq = ++seq;
        b.step = out().cur_step;
        auto it = blocks.find(p);
        if (it != blocks.end())
        {
            // a quarantined block can never be handed out again (its malloc chunk is still held), so this is a harness bug
            emit(J().kv("t", "harness_error").kv("what", "ledger address reuse").str());
            std::_Exit(3);
        }
        blocks.emplace(p, b);
        bytes_allocated += bytes;
        if (out().verbose)
            emit(J().kv("t", "alloc").kv("p", static_cast<uint64_t>(p)).kv("bytes", static_cast<uint64_t>(bytes)).kv("arena", arena).kv("tag", tag).str());
        return blockp;
    }

    __attribute__((no_sanitize_address)) static bool canary_ok(const Block& b, size_t* where)
    {
        const unsigned char* raw = b.raw;
        const size_t left = b.base - reinterpret_cast<uintptr_t>(raw);
        for (size_t i = 0; i < left; ++i)
            if (raw[i] != CANARY)
            {
                *where = i;
                return false;
            }
        for (size_t i = left + b.bytes; i < b.raw_bytes; ++i)
            if (raw[i] != CANARY)
            {
                *where = i;
                return false;
            }
        return true;
    }

    void deallocate(int arena, int tag, void* ptr, size_t bytes) noexcept
    {
        HarnessScope hs;
        ++dealloc_events;
        const auto p = reinterpret_cast<uintptr_t>(ptr);
        if (out().verbose)
            emit(J().kv("t", "dealloc").kv("p", static_cast<uint64_t>(p)).kv("bytes", static_cast<uint64_t>(bytes)).kv("arena", arena).kv("tag", tag).str());
        auto it = blocks.find(p);
        if (it == blocks.end())
        {
            violation("C07", "dealloc_unknown_pointer", fmt("deallocate(%p, %zu) arena %d: pointer was never returned by allocate", ptr, bytes, arena));
            return;
        }
        Block& b = it->second;
        if (!b.live)
        {
            violation("C07", "dealloc_twice", fmt("deallocate(%p, %zu) arena %d: block already returned", ptr, bytes, arena));
            return;
        }
        if (b.bytes != bytes)
            violation("C07", "dealloc_wrong_size", fmt("block of %zu bytes (tag %d) returned as %zu bytes", b.bytes, b.tag, bytes));
        if (b.arena != arena)
            violation("C07,C08", "dealloc_foreign_arena", fmt("block of arena %d (tag %d, %zu bytes) returned through arena %d", b.arena, b.tag, b.bytes, arena));
        if (b.tag != tag) violation("C07", "dealloc_wrong_type", fmt("block tag %d returned as tag %d", b.tag, tag));
        size_t where = 0;
        if (!canary_ok(b, &where))
            violation("C02", "canary_damaged", fmt("slack around block %p (+%zu bytes, tag %d) was written at raw offset %zu (block starts at %zu)", ptr, b.bytes, b.tag, where, b.base - reinterpret_cast<uintptr_t>(b.raw)));
        if (release_hook) release_hook(b.base, b.bytes);
        b.live = false;
        unpoison(b.raw, b.raw_bytes);
        std::memset(b.raw, CANARY, b.raw_bytes);
        poison(b.raw, b.raw_bytes);
    }

    void check_all_canaries()
    {
        for (auto& [base, b] : blocks)
        {
            if (!b.live) continue;
            size_t where = 0;
            if (!canary_ok(b, &where))
                violation("C02", "canary_damaged", fmt("slack around live block %#zx (+%zu bytes, tag %d) was written at raw offset %zu (block starts at %zu)", static_cast<size_t>(base), b.bytes, b.tag, where, b.base - reinterpret_cast<uintptr_t>(b.raw)));
        }
    }

    // live block containing address p (p == base + bytes counts as inside: one-past pointers)
    const Block* find_live(uintptr_t p) const
    {
        auto it = blocks.upper_bound(p);
        while (it != blocks.begin())
        {
            --it;
            const Block& b = it->second;
            if (b.live && p >= b.base && p <= b.base + b.bytes) return &b;
            if (p > b.base + b.bytes + 4096) break;
        }
        return nullptr;
    }

    const Block* find_exact(uintptr_t base) const
    {
        auto it = blocks.find(base);
        return it == blocks.end() ? nullptr : &it->second;
    }

    size_t live_count(int tag = -1, int arena = -1) const
    {
        size_t n = 0;
        for (auto& [base, b] : blocks)
            if (b.live && (tag < 0 || b.tag == tag) && (arena < 0 || b.arena == arena)) ++n;
        return n;
    }

    // end of case: everything must have been returned; then really free the memory
    void reset()
    {
        for (auto& [base, b] : blocks)
        {
            unpoison(b.raw, b.raw_bytes);
            std::free(b.raw);
        }
        blocks.clear();
        fail_countdown = -1;
    }
};

inline Ledger& ledger() { return Ledger::get(); }

// RAII flag for "inside a library call" (operator new bypass detection)
struct LibCall
{
    bool prev;
    LibCall() : prev(ledger().in_library_call) { ledger().in_library_call = true; }
    ~LibCall()
    {
        ledger().in_library_call = prev;
        if (!prev && ledger().new_in_library_call != 0)
        {
            violation("C07", "operator_new_bypass", fmt("%" PRIu64 " calls of the global operator new from inside the library call although the value types never allocate: memory was not obtained from the allocator", ledger().new_in_library_call));
            ledger().new_in_library_call = 0;
        }
    }
};

// called by the replaced global operator new of engines built with VF_ARM_NEW
inline void note_operator_new()
{
    if (HarnessScope::depth() == 0 && ledger().in_library_call) ++ledger().new_in_library_call;
}

// ------------------------------------------------------------------------------------------------ allocator kinds
template <bool AlwaysEqual, bool Pocca, bool Pocma, bool Pocs, bool SocccDefault = false, bool Labelled = false>
struct Kind
{
    static constexpr bool ALWAYS_EQUAL = AlwaysEqual;
    // an always-equal allocator whose instances are nevertheless distinguishable (a label that takes no part in ==): memory
    // is interchangeable, but get_allocator() still has to follow the propagation rules
    static constexpr bool LABELLED = AlwaysEqual && Labelled;
    static constexpr bool HAS_IDENTITY = !AlwaysEqual || Labelled;
    static constexpr bool POCCA = Pocca;
    static constexpr bool POCMA = Pocma;
    static constexpr bool POCS = Pocs;
    static constexpr bool SOCCC_DEFAULT = SocccDefault;  // select_on_container_copy_construction returns arena 0 (pmr-like)
    static std::string name()
    {
        if (ALWAYS_EQUAL && !LABELLED) return "stateless";
        std::string s = LABELLED ? "always-equal+label" : "stateful";
        s += POCCA ? "+pocca" : "";
        s += POCMA ? "+pocma" : "";
        s += POCS ? "+pocs" : "";
        s += SOCCC_DEFAULT ? "+socccdef" : "";
        return s;
    }
};

template <bool Stateful>
struct ArenaHolder
{
    int arena = 0;
    int get_arena() const noexcept { return arena; }
    void set_arena(int a) noexcept { arena = a; }
};

template <>
struct ArenaHolder<false>
{
    int get_arena() const noexcept { return 0; }
    void set_arena(int) noexcept {}
};

template <class T>
constexpr int tag_of()
{
    if constexpr (std::is_same_v<T, std::size_t>)
        return TAG_TABLE;
    else
        return TAG_DATA;
}

template <class T, class K>
struct LedgerAlloc : ArenaHolder<K::HAS_IDENTITY>
{
    using value_type = T;
    using propagate_on_container_copy_assignment = std::bool_constant<K::POCCA>;
    using propagate_on_container_move_assignment = std::bool_constant<K::POCMA>;
    using propagate_on_container_swap = std::bool_constant<K::POCS>;
    using is_always_equal = std::bool_constant<K::ALWAYS_EQUAL>;
    using kind = K;

    template <class U>
    struct rebind
    {
        using other = LedgerAlloc<U, K>;
    };

    LedgerAlloc() = default;
    explicit LedgerAlloc(int arena) noexcept { this->set_arena(arena); }
    template <class U>
    LedgerAlloc(const LedgerAlloc<U, K>& o) noexcept
    {
        this->set_arena(o.get_arena());
    }

    int ledger_arena() const noexcept { return K::ALWAYS_EQUAL ? 0 : this->get_arena(); }
    T* allocate(std::size_t n) { return static_cast<T*>(ledger().allocate(ledger_arena(), tag_of<T>(), n * sizeof(T), alignof(T))); }
    void deallocate(T* p, std::size_t n) noexcept { ledger().deallocate(ledger_arena(), tag_of<T>(), p, n * sizeof(T)); }

    std::size_t max_size() const noexcept { return ledger().max_bytes / sizeof(T); }

    LedgerAlloc select_on_container_copy_construction() const
    {
        if constexpr (K::SOCCC_DEFAULT)
            return LedgerAlloc{};
        else
            return *this;
    }

    template <class U>
    friend bool operator==(const LedgerAlloc& a, const LedgerAlloc<U, K>& b) noexcept
    {
        return K::ALWAYS_EQUAL || a.get_arena() == b.get_arena();
    }
    template <class U>
    friend bool operator!=(const LedgerAlloc& a, const LedgerAlloc<U, K>& b) noexcept
    {
        return !K::ALWAYS_EQUAL && a.get_arena() != b.get_arena();
    }
};
}  // namespace vf
