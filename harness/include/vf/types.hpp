// Value types used as fields, the object registry behind the instrumented ones, and the codecs that are the only
// typed glue between the type-erased model (int64 per item) and the stored objects.
#pragma once

#include "vf/base.hpp"
#include "vf/ledger.hpp"

#include <cmath>
#include <cstddef>
#include <limits>
#include <memory>
#include <string>
#include <type_traits>

namespace vf
{
constexpr int64_t DONT_CARE = INT64_MIN;  // a value the model does not predict (moved-from std::string)
constexpr int64_t NULLV = -1;             // moved-from / empty unique_ptr
constexpr int32_t MOVED = -2;             // moved-from Tracked

// ------------------------------------------------------------------------------------------------ registry
struct RegEntry
{
    uint64_t serial{};
    size_t size{};
    int32_t value{};
};

struct Registry
{
    std::map<uintptr_t, RegEntry> live;
    uint64_t serial = 0;
    uint64_t constructed = 0, destroyed = 0, copy_constructed = 0, move_constructed = 0, assigned = 0, compared = 0;
    bool enabled = true;

    static Registry& get()
    {
        static Registry r;
        return r;
    }

    static void expected_bytes(int32_t value, unsigned char* b, size_t n)
    {
        std::memcpy(b, &value, 4);
        for (size_t i = 4; i < n; ++i) b[i] = static_cast<unsigned char>(static_cast<uint32_t>(value) * 131u + i * 7u + 1u);
    }

    void on_construct(void* p, size_t n, int32_t value, const char* how)
    {
        HarnessScope hs;
        if (!enabled) return;
        ++constructed;
        const auto a = reinterpret_cast<uintptr_t>(p);
        auto it = live.lower_bound(a);
        if (it != live.end() && it->first < a + n)
            violation("C06", "construct_over_live_object", fmt("%s at %p (+%zu) overlaps live object #%" PRIu64 " at %#zx", how, p, n, it->second.serial, static_cast<size_t>(it->first)));
        if (it != live.begin())
        {
            auto pr = std::prev(it);
            if (pr->first + pr->second.size > a)
                violation("C06", "construct_over_live_object", fmt("%s at %p (+%zu) overlaps live object #%" PRIu64 " at %#zx", how, p, n, pr->second.serial, static_cast<size_t>(pr->first)));
        }
        live[a] = RegEntry{++serial, n, value};
    }

    // returns the entry if the object at p is a live constructed object, reports otherwise
    RegEntry* check(const void* p, size_t n, const char* what)
    {
        HarnessScope hs;
        if (!enabled) return nullptr;
        const auto a = reinterpret_cast<uintptr_t>(p);
        auto it = live.find(a);
        if (it == live.end() || it->second.size != n)
        {
            violation("C06", "use_of_dead_object", fmt("%s on %p (+%zu): no constructed object lives there (destroyed, never constructed, or relocated bitwise)", what, p, n));
            return nullptr;
        }
        return &it->second;
    }

    void on_destroy(void* p, size_t n)
    {
        HarnessScope hs;
        if (!enabled) return;
        const auto a = reinterpret_cast<uintptr_t>(p);
        auto it = live.find(a);
        if (it == live.end() || it->second.size != n)
        {
            violation("C06", "destroy_of_dead_object", fmt("destructor on %p (+%zu): no constructed object lives there (destroyed twice, never constructed, or relocated bitwise)", p, n));
            return;
        }
        ++destroyed;
        live.erase(it);
    }

    // every live object still has the bytes its own members gave it
    __attribute__((no_sanitize_address)) void sweep()
    {
        unsigned char exp[64];
        for (auto& [a, e] : live)
        {
            expected_bytes(e.value, exp, e.size);
            const auto* b = reinterpret_cast<const unsigned char*>(a);
            for (size_t i = 0; i < e.size; ++i)
                if (b[i] != exp[i])
                {
                    violation("C06", "live_object_clobbered", fmt("live object #%" PRIu64 " at %#zx (+%zu, value %d): byte %zu changed behind its back", e.serial, static_cast<size_t>(a), e.size, e.value, i));
                    break;
                }
        }
    }

    size_t live_in(uintptr_t lo, uintptr_t hi) const
    {
        size_t n = 0;
        for (auto it = live.lower_bound(lo); it != live.end() && it->first < hi; ++it) ++n;
        return n;
    }

    void reset()
    {
        live.clear();
    }
};

inline Registry& registry() { return Registry::get(); }

inline void registry_release_hook(uintptr_t base, size_t bytes)
{
    const size_t n = registry().live_in(base, base + bytes);
    if (n) violation("C06", "block_released_with_live_objects", fmt("block %#zx (+%zu) returned to the allocator with %zu live objects inside", static_cast<size_t>(base), bytes, n));
}

// ------------------------------------------------------------------------------------------------ instrumented type
// alignof == 1 on purpose: the library stores objects unaligned unless AlignAs is given.
template <size_t N>
struct TrackedBase
{
    static_assert(N >= 4 && N <= 64);
    unsigned char b[N];

    int32_t raw_value() const
    {
        int32_t v;
        std::memcpy(&v, b, 4);
        return v;
    }
    void set_bytes(int32_t v) { Registry::expected_bytes(v, b, N); }
    int32_t value(const char* what = "read") const
    {
        auto* e = registry().check(this, N, what);
        return e ? e->value : raw_value();
    }

  protected:
    void init_value(int32_t v)
    {
        set_bytes(v);
        registry().on_construct(this, N, v, "value constructor");
    }
    void init_copy(const TrackedBase& o)
    {
        auto* e = registry().check(&o, N, "copy construction from");
        const int32_t v = e ? e->value : o.raw_value();
        set_bytes(v);
        ++registry().copy_constructed;
        registry().on_construct(this, N, v, "copy constructor");
    }
    void init_move(TrackedBase& o)
    {
        auto* e = registry().check(&o, N, "move construction from");
        const int32_t v = e ? e->value : o.raw_value();
        set_bytes(v);
        ++registry().move_constructed;
        registry().on_construct(this, N, v, "move constructor");
        // look the source up again: on_construct may have rebalanced nothing, but stay independent of map internals
        e = registry().enabled ? registry().check(&o, N, "move construction from") : nullptr;
        if (e)
        {
            e->value = MOVED;
            o.set_bytes(MOVED);
        }
    }
    void assign_copy(const TrackedBase& o)
    {
        auto* s = registry().check(&o, N, "copy assignment from");
        auto* t = registry().check(this, N, "copy assignment to");
        ++registry().assigned;
        if (s && t)
        {
            t->value = s->value;
            set_bytes(s->value);
        }
    }
    void assign_move(TrackedBase& o)
    {
        auto* s = registry().check(&o, N, "move assignment from");
        auto* t = registry().check(this, N, "move assignment to");
        ++registry().assigned;
        if (s && t && s != t)
        {
            t->value = s->value;
            set_bytes(s->value);
            s->value = MOVED;
            o.set_bytes(MOVED);
        }
    }
    void fini()
    {
        registry().on_destroy(this, N);
        std::memset(b, 0xDD, N);
    }
};

template <size_t N, bool Copyable = true>
struct Tracked : TrackedBase<N>
{
    explicit Tracked(int32_t v) { this->init_value(v); }
    Tracked(const Tracked& o) { this->init_copy(o); }
    Tracked(Tracked&& o) noexcept { this->init_move(o); }
    Tracked& operator=(const Tracked& o)
    {
        this->assign_copy(o);
        return *this;
    }
    Tracked& operator=(Tracked&& o) noexcept
    {
        this->assign_move(o);
        return *this;
    }
    ~Tracked() { this->fini(); }
};

template <size_t N>
struct Tracked<N, false> : TrackedBase<N>
{
    explicit Tracked(int32_t v) { this->init_value(v); }
    Tracked(const Tracked&) = delete;
    Tracked(Tracked&& o) noexcept { this->init_move(o); }
    Tracked& operator=(const Tracked&) = delete;
    Tracked& operator=(Tracked&& o) noexcept
    {
        this->assign_move(o);
        return *this;
    }
    ~Tracked() { this->fini(); }
};

template <size_t N>
bool operator==(const TrackedBase<N>& a, const TrackedBase<N>& c)
{
    ++registry().compared;
    return a.value("operator==") == c.value("operator==");
}
template <size_t N>
bool operator!=(const TrackedBase<N>& a, const TrackedBase<N>& c)
{
    return !(a == c);
}
template <size_t N>
bool operator<(const TrackedBase<N>& a, const TrackedBase<N>& c)
{
    ++registry().compared;
    return a.value("operator<") < c.value("operator<");
}

template <class T>
struct IsTracked : std::false_type
{
};
template <size_t N, bool C>
struct IsTracked<Tracked<N, C>> : std::true_type
{
};

// ------------------------------------------------------------------------------------------------ plain structs
enum class EnumE : uint8_t
{
    A = 0,
    B = 1,
    C = 2,
    Z = 255
};

struct B3
{
    uint8_t a[3];
    friend bool operator==(const B3& x, const B3& y) { return std::memcmp(x.a, y.a, 3) == 0; }
    friend bool operator!=(const B3& x, const B3& y) { return !(x == y); }
    friend bool operator<(const B3& x, const B3& y) { return std::memcmp(x.a, y.a, 3) < 0; }
};

struct B12
{
    uint32_t x;
    uint8_t y[8];
    friend bool operator==(const B12& l, const B12& r) { return l.x == r.x && std::memcmp(l.y, r.y, 8) == 0; }
    friend bool operator!=(const B12& l, const B12& r) { return !(l == r); }
    friend bool operator<(const B12& l, const B12& r) { return l.x != r.x ? l.x < r.x : std::memcmp(l.y, r.y, 8) < 0; }
};
static_assert(sizeof(B3) == 3 && sizeof(B12) == 12);

// trivially copyable values whose size is K * sizeof(U): with odd K the size is no power of two, so the end of a span of
// them is less aligned than min(size, alignment of its start) suggests
template <class U, size_t K>
struct Odd
{
    U u[K];
    friend bool operator==(const Odd& l, const Odd& r)
    {
        for (size_t i = 0; i < K; ++i)
            if (!(l.u[i] == r.u[i])) return false;
        return true;
    }
    friend bool operator!=(const Odd& l, const Odd& r) { return !(l == r); }
    friend bool operator<(const Odd& l, const Odd& r)
    {
        for (size_t i = 0; i < K; ++i)
            if (!(l.u[i] == r.u[i])) return l.u[i] < r.u[i];
        return false;
    }
};
// Trivially copy-constructible, but NOT trivially copyable: the move constructor is user-provided and empties its source.
// Relocation and moves have to go through it (bytewise relocation leaves the source unchanged and is not counted).
struct CopyTrivMove8
{
    int32_t v = 0;
    int32_t tag = 0x5A5A;
    static inline uint64_t move_constructions = 0;
    CopyTrivMove8() = default;
    explicit CopyTrivMove8(int32_t x) : v(x) {}
    CopyTrivMove8(const CopyTrivMove8&) = default;
    CopyTrivMove8(CopyTrivMove8&& o) noexcept : v(o.v), tag(o.tag)
    {
        o.v = MOVED;
        ++move_constructions;
    }
    CopyTrivMove8& operator=(const CopyTrivMove8&) = default;
    CopyTrivMove8& operator=(CopyTrivMove8&& o) noexcept
    {
        v = o.v;
        if (this != &o) o.v = MOVED;
        return *this;
    }
    friend bool operator==(const CopyTrivMove8& l, const CopyTrivMove8& r) { return l.v == r.v; }
    friend bool operator!=(const CopyTrivMove8& l, const CopyTrivMove8& r) { return l.v != r.v; }
    friend bool operator<(const CopyTrivMove8& l, const CopyTrivMove8& r) { return l.v < r.v; }
};
static_assert(std::is_trivially_copy_constructible_v<CopyTrivMove8> && !std::is_trivially_copyable_v<CopyTrivMove8> && !std::is_trivially_move_constructible_v<CopyTrivMove8>);

// The mirror image: copy constructor and copy assignment are user-provided (and counted), move constructor, move assignment
// and destructor are trivial. Copies of a container / element / reference have to run the copy operations; taking the
// triviality of the move operations for triviality of the copy operations copies bytes instead.
struct Cnt8
{
    int32_t v = 0;
    int32_t tag = 0x3C3C;
    static inline uint64_t copy_constructions = 0, copy_assignments = 0;
    static uint64_t copies() { return copy_constructions + copy_assignments; }
    Cnt8() = default;
    explicit Cnt8(int32_t x) : v(x) {}
    Cnt8(const Cnt8& o) noexcept : v(o.v), tag(o.tag) { ++copy_constructions; }
    Cnt8(Cnt8&&) = default;
    Cnt8& operator=(const Cnt8& o) noexcept
    {
        v = o.v;
        tag = o.tag;
        ++copy_assignments;
        return *this;
    }
    Cnt8& operator=(Cnt8&&) = default;
    friend bool operator==(const Cnt8& l, const Cnt8& r) { return l.v == r.v; }
    friend bool operator!=(const Cnt8& l, const Cnt8& r) { return l.v != r.v; }
    friend bool operator<(const Cnt8& l, const Cnt8& r) { return l.v < r.v; }
};
static_assert(std::is_trivially_move_constructible_v<Cnt8> && !std::is_trivially_copy_constructible_v<Cnt8> && std::is_trivially_move_assignable_v<Cnt8> &&
              !std::is_trivially_copy_assignable_v<Cnt8> && std::is_trivially_destructible_v<Cnt8> && !std::is_trivially_copyable_v<Cnt8>);

// Trivially copyable, but unary & is overloaded (a handle type): the address of such an object is std::addressof(x), `&x`
// is something else.
struct Amp8
{
    uint32_t gen = 0;
    uint32_t id = 0;
    const uint32_t* operator&() const noexcept { return std::addressof(id); }
    uint32_t* operator&() noexcept { return std::addressof(id); }
    friend bool operator==(const Amp8& l, const Amp8& r) { return l.gen == r.gen && l.id == r.id; }
    friend bool operator!=(const Amp8& l, const Amp8& r) { return !(l == r); }
    friend bool operator<(const Amp8& l, const Amp8& r) { return l.gen != r.gen ? l.gen < r.gen : l.id < r.id; }
};
static_assert(std::is_trivially_copyable_v<Amp8> && sizeof(Amp8) == 8);

// Pointers to a base class that does not sit at offset 0 of the most derived object: converting Derived* to SecondBase*
// adjusts the address, copying the bits does not.
struct FirstBase
{
    int64_t first = 1;
};
struct SecondBase
{
    int64_t second = 2;
};
struct Derived : FirstBase, SecondBase
{
    int64_t own = 3;
};
inline Derived* derived_pool()
{
    static Derived pool[128];
    return pool;
}
using BasePtr = SecondBase*;

using B5 = Odd<uint8_t, 5>;
using B6 = Odd<uint16_t, 3>;
using B20 = Odd<uint32_t, 5>;
using B24 = Odd<uint64_t, 3>;
static_assert(sizeof(B5) == 5 && sizeof(B6) == 6 && sizeof(B20) == 20 && sizeof(B24) == 24 && alignof(B24) == 8);

// trivially copyable, no padding bits, but equality and order are NOT bytewise (values are compared modulo 8):
// a bytewise fast path widened to such a class type is observable
struct Mod8
{
    uint8_t v;
    friend bool operator==(const Mod8& x, const Mod8& y) { return (x.v & 7) == (y.v & 7); }
    friend bool operator!=(const Mod8& x, const Mod8& y) { return !(x == y); }
    friend bool operator<(const Mod8& x, const Mod8& y) { return (x.v & 7) < (y.v & 7); }
};
static_assert(std::has_unique_object_representations_v<Mod8>);

// ------------------------------------------------------------------------------------------------ codecs
template <class T, class = void>
struct Codec;

template <class T>
struct Codec<T, std::enable_if_t<std::is_integral_v<T> && !std::is_same_v<T, bool>>>
{
    static constexpr const char* NAME = "int";
    static T make(int64_t v) { return static_cast<T>(v); }
    static int64_t read(const T& x) { return static_cast<int64_t>(x); }
    static int64_t moved(int64_t v) { return v; }
};

template <>
struct Codec<bool>
{
    static bool make(int64_t v) { return (v & 1) != 0; }
    static int64_t read(const bool& x)
    {
        unsigned char raw;
        std::memcpy(&raw, &x, 1);
        return raw;  // an invalid representation (2..255) shows up as a model mismatch
    }
    static int64_t moved(int64_t v) { return v; }
};

constexpr int64_t CODE_NEG_ZERO = (int64_t{1} << 40) + 1;  // -0.0: equal to +0.0 but different bytes
constexpr int64_t CODE_NAN = (int64_t{1} << 40) + 2;       // NaN: unequal to itself but equal bytes

template <class T>
struct Codec<T, std::enable_if_t<std::is_floating_point_v<T>>>
{
    static T make(int64_t v)
    {
        if (v == CODE_NEG_ZERO) return static_cast<T>(-0.0);
        if (v == CODE_NAN) return std::numeric_limits<T>::quiet_NaN();
        return static_cast<T>(v % (1 << 20));
    }
    static int64_t read(const T& x)
    {
        if (x != x) return CODE_NAN;
        if (x == 0 && std::signbit(x)) return CODE_NEG_ZERO;
        return static_cast<int64_t>(x);
    }
    static int64_t moved(int64_t v) { return v; }
};

template <>
struct Codec<std::byte>
{
    static std::byte make(int64_t v) { return static_cast<std::byte>(v & 0xFF); }
    static int64_t read(const std::byte& x) { return static_cast<int64_t>(x); }
    static int64_t moved(int64_t v) { return v; }
};

template <>
struct Codec<EnumE>
{
    static EnumE make(int64_t v) { return static_cast<EnumE>(v & 0xFF); }
    static int64_t read(const EnumE& x) { return static_cast<int64_t>(x); }
    static int64_t moved(int64_t v) { return v; }
};

template <>
struct Codec<int*>
{
    static int* make(int64_t v) { return reinterpret_cast<int*>(static_cast<uintptr_t>(v) << 3); }
    static int64_t read(int* const& x) { return static_cast<int64_t>(reinterpret_cast<uintptr_t>(x) >> 3); }
    static int64_t moved(int64_t v) { return v; }
};

template <>
struct Codec<B3>
{
    static B3 make(int64_t v) { return B3{{static_cast<uint8_t>(v), static_cast<uint8_t>(v >> 8), static_cast<uint8_t>(v >> 16)}}; }
    static int64_t read(const B3& x) { return x.a[0] | (x.a[1] << 8) | (x.a[2] << 16); }
    static int64_t moved(int64_t v) { return v; }
};

template <class U, size_t K>
struct Codec<Odd<U, K>>
{
    static Odd<U, K> make(int64_t v)
    {
        Odd<U, K> r;
        r.u[0] = static_cast<U>(v);
        for (size_t i = 1; i < K; ++i) r.u[i] = static_cast<U>(static_cast<int64_t>(r.u[0]) * 3 + static_cast<int64_t>(i));
        return r;
    }
    static int64_t read(const Odd<U, K>& x)
    {
        for (size_t i = 1; i < K; ++i)
            if (x.u[i] != static_cast<U>(static_cast<int64_t>(x.u[0]) * 3 + static_cast<int64_t>(i))) return -1000 - static_cast<int64_t>(i);
        return static_cast<int64_t>(x.u[0]);
    }
    static int64_t moved(int64_t v) { return v; }
};

template <>
struct Codec<CopyTrivMove8>
{
    static CopyTrivMove8 make(int64_t v) { return CopyTrivMove8{static_cast<int32_t>(v)}; }
    static int64_t read(const CopyTrivMove8& x) { return x.tag == 0x5A5A ? x.v : -777; }
    static int64_t moved(int64_t) { return MOVED; }
};

template <>
struct Codec<Cnt8>
{
    static Cnt8 make(int64_t v) { return Cnt8{static_cast<int32_t>(v)}; }
    static int64_t read(const Cnt8& x) { return x.tag == 0x3C3C ? x.v : -776; }
    static int64_t moved(int64_t v) { return v; }  // the move operations are trivial: the source keeps its value
};

template <>
struct Codec<Amp8>
{
    static Amp8 make(int64_t v)
    {
        Amp8 r;
        r.id = static_cast<uint32_t>(v);
        r.gen = static_cast<uint32_t>(v) * 7u + 1u;
        return r;
    }
    static int64_t read(const Amp8& x) { return x.gen == x.id * 7u + 1u ? static_cast<int64_t>(x.id) : -778; }
    static int64_t moved(int64_t v) { return v; }
};

template <>
struct Codec<BasePtr>
{
    // value v <-> pointer to the SecondBase subobject of pool object v mod 127 (+1), 0 <-> null
    static BasePtr make(int64_t v)
    {
        const auto k = static_cast<uint64_t>(v) % 128;
        return k == 0 ? nullptr : static_cast<SecondBase*>(derived_pool() + k);
    }
    static int64_t read(BasePtr p)
    {
        if (!p) return 0;
        for (int64_t k = 1; k < 128; ++k)
            if (static_cast<SecondBase*>(derived_pool() + k) == p) return k;
        return -779;  // not the address of any SecondBase subobject of the pool (e.g. unadjusted Derived* bits)
    }
    static int64_t moved(int64_t v) { return v; }
};

template <>
struct Codec<Mod8>
{
    static Mod8 make(int64_t v) { return Mod8{static_cast<uint8_t>(v)}; }
    static int64_t read(const Mod8& x) { return x.v; }
    static int64_t moved(int64_t v) { return v; }
};

template <>
struct Codec<B12>
{
    static B12 make(int64_t v)
    {
        B12 r;
        r.x = static_cast<uint32_t>(v);
        for (int i = 0; i < 8; ++i) r.y[i] = static_cast<uint8_t>(v * 3 + i);
        return r;
    }
    static int64_t read(const B12& x)
    {
        for (int i = 0; i < 8; ++i)
            if (x.y[i] != static_cast<uint8_t>(static_cast<int64_t>(x.x) * 3 + i)) return -1000 - i;
        return x.x;
    }
    static int64_t moved(int64_t v) { return v; }
};

template <size_t N, bool C>
struct Codec<Tracked<N, C>>
{
    static Tracked<N, C> make(int64_t v) { return Tracked<N, C>(static_cast<int32_t>(v)); }
    static int64_t read(const Tracked<N, C>& x) { return x.value("read through the API"); }
    static int64_t moved(int64_t) { return MOVED; }
};

template <>
struct Codec<std::string>
{
    static std::string make(int64_t v)
    {
        std::string s = std::to_string(v);
        if (v % 3 == 0) s += std::string(40, 'x');  // defeat the small-string buffer for a third of the values
        return s;
    }
    static int64_t read(const std::string& x) { return x.empty() ? -3 : strtoll(x.c_str(), nullptr, 10); }
    static int64_t moved(int64_t) { return DONT_CARE; }
};

template <>
struct Codec<std::unique_ptr<int>>
{
    static std::unique_ptr<int> make(int64_t v) { return std::make_unique<int>(static_cast<int>(v)); }
    static int64_t read(const std::unique_ptr<int>& x) { return x ? *x : NULLV; }
    static int64_t moved(int64_t) { return NULLV; }
};

template <class T>
int64_t project(int64_t v)
{
    // what reading back a stored make(v) yields; computed without constructing instrumented objects
    if constexpr (IsTracked<T>::value)
        return static_cast<int32_t>(v);
    else if constexpr (std::is_same_v<T, std::unique_ptr<int>>)
        return static_cast<int>(v);
    else
    {
        const T t = Codec<T>::make(v);
        return Codec<T>::read(t);
    }
}

template <class T>
const char* type_name()
{
    if constexpr (std::is_same_v<T, uint8_t>) return "u8";
    else if constexpr (std::is_same_v<T, int8_t>) return "i8";
    else if constexpr (std::is_same_v<T, char>) return "char";
    else if constexpr (std::is_same_v<T, std::byte>) return "byte";
    else if constexpr (std::is_same_v<T, uint16_t>) return "u16";
    else if constexpr (std::is_same_v<T, int16_t>) return "i16";
    else if constexpr (std::is_same_v<T, uint32_t>) return "u32";
    else if constexpr (std::is_same_v<T, int32_t>) return "i32";
    else if constexpr (std::is_same_v<T, uint64_t>) return "u64";
    else if constexpr (std::is_same_v<T, int64_t>) return "i64";
    else if constexpr (std::is_same_v<T, float>) return "f32";
    else if constexpr (std::is_same_v<T, double>) return "f64";
    else if constexpr (std::is_same_v<T, bool>) return "bool";
    else if constexpr (std::is_same_v<T, int*>) return "ptr";
    else if constexpr (std::is_same_v<T, EnumE>) return "enumE";
    else if constexpr (std::is_same_v<T, B3>) return "B3";
    else if constexpr (std::is_same_v<T, B12>) return "B12";
    else if constexpr (std::is_same_v<T, Mod8>) return "M8";
    else if constexpr (std::is_same_v<T, CopyTrivMove8>) return "Ctm8";
    else if constexpr (std::is_same_v<T, Amp8>) return "Amp8";
    else if constexpr (std::is_same_v<T, Cnt8>) return "Cnt8";
    else if constexpr (std::is_same_v<T, BasePtr>) return "bptr";
    else if constexpr (std::is_same_v<T, B5>) return "B5";
    else if constexpr (std::is_same_v<T, B6>) return "B6";
    else if constexpr (std::is_same_v<T, B20>) return "B20";
    else if constexpr (std::is_same_v<T, B24>) return "B24";
    else if constexpr (std::is_same_v<T, std::string>) return "str";
    else if constexpr (std::is_same_v<T, std::unique_ptr<int>>) return "uptr";
    else if constexpr (IsTracked<T>::value) return std::is_copy_constructible_v<T> ? "Tr" : "TrMv";
    else return "?";
}
}  // namespace vf
