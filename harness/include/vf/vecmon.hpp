// Monitors over one vector observed through its public API only: model comparison (C01), containment (C02),
// alignment (C03), order/overlap/counts (C04), tight packing (C05), allocator identity (C08), empty-state sanity (C18).
// Used by the hist, fault and elem engines after every step.
#pragma once

#include "vf/config.hpp"

#include <optional>

namespace vf
{
struct MVec
{
    bool exists = false;
    bool moved_from = false;
    bool residual = false;      // moved-from by element-wise move: still owns its block and moved-from objects
    size_t residual_objects = 0;
    bool default_constructed = false;
    bool ever_held = false;     // held an element at some point since construction / last assignment
    bool grown_by_reserve = false;  // capacity / budget come from a growing reserve(): what it promised is C10's business
    bool fresh_block = true;    // storage obtained for exactly (cap, budget): construct, growing reserve, copy construction
    std::vector<MElem> e;
    size_t cap = 0;
    size_t budget = 0;          // bytes of varying payload guaranteed to fit
    std::vector<size_t> fixed;
    int arena = 0;

    size_t payload_of(const MElem& m, const FieldInfo* f, size_t nf) const
    {
        size_t p = 0;
        for (size_t i = 0; i < nf; ++i)
            if (f[i].kind == 'V') p += f[i].size * m.f[i].size();
        return p;
    }
};

inline const char* prestate(const MVec& m)
{
    if (!m.exists) return "none";
    if (m.moved_from) return "moved-from";
    if (m.e.empty())
    {
        if (m.default_constructed) return "empty-default";
        if (m.cap == 0) return "empty-cap0";
        return m.ever_held ? "empty-emptied" : "empty-fresh";
    }
    return m.e.size() == m.cap ? "full" : "partial";
}

inline bool is_empty_state(const MVec& m) { return m.exists && !m.moved_from && m.e.empty(); }

struct ElemAddrs
{
    uint64_t id;
    std::vector<std::pair<uintptr_t, size_t>> f;  // begin, count
};

struct VecSnapshot
{
    bool valid = false;
    uintptr_t data_begin = 0;
    size_t capacity = 0;
    std::vector<ElemAddrs> elems;
};

template <class Cfg, class Vec>
struct VecMon
{
    using G = Glue<Cfg>;
    static constexpr size_t NF = Cfg::NF;

    static size_t payload(const MElem& m)
    {
        size_t p = 0;
        const auto& f = Cfg::fields();
        for (size_t i = 0; i < NF; ++i)
            if (f[i].kind == 'V') p += f[i].size * m.f[i].size();
        return p;
    }

    static size_t payload(const MVec& m)
    {
        size_t p = 0;
        for (auto& e : m.e) p += payload(e);
        return p;
    }

    template <size_t... K>
    static std::vector<size_t> fixed_sizes_impl(const Vec& v, std::index_sequence<K...>)
    {
        return {v.template get_fixed_size<K>()...};
    }
    static std::vector<size_t> fixed_sizes(const Vec& v) { return fixed_sizes_impl(v, std::make_index_sequence<Cfg::N_FIXED>{}); }

    static VecSnapshot snapshot(const Vec& v, const MVec& m)
    {
        VecSnapshot s;
        if (!m.exists || m.moved_from) return s;
        s.valid = true;
        s.data_begin = reinterpret_cast<uintptr_t>(v.data_begin());
        s.capacity = v.capacity();
        for (size_t i = 0; i < m.e.size() && i < v.size(); ++i)
        {
            auto a = G::addresses(v[i]);
            ElemAddrs ea;
            ea.id = m.e[i].id;
            for (auto& x : a) ea.f.emplace_back(x.begin, x.count);
            s.elems.push_back(std::move(ea));
        }
        return s;
    }

    // Returns false if a structural problem makes further inspection unsafe.
    static bool check(Vec& v, const MVec& m, const char* op, const char* pre, const char* who)
    {
        const auto& fields = Cfg::fields();
        const Vec& cv = v;
        const int before = out().viol_in_case;
        // ---- C01 scalars
        const size_t n = cv.size();
        if (n != m.e.size())
        {
            violation("C01", "size_mismatch", fmt("%s: size() == %zu, model has %zu elements", who, n, m.e.size()), op, pre);
            return false;
        }
        if (cv.empty() != m.e.empty()) violation("C01", "empty_mismatch", fmt("%s: empty() == %d with %zu elements", who, int(cv.empty()), n), op, pre);
        if (cv.capacity() != m.cap) violation("C01", "capacity_mismatch", fmt("%s: capacity() == %zu, expected %zu", who, cv.capacity(), m.cap), op, pre);
        if (cv.capacity() < n)
        {
            violation("C01", "capacity_below_size", fmt("%s: capacity() == %zu < size() == %zu", who, cv.capacity(), n), op, pre);
            return false;
        }
        {
            auto fs = fixed_sizes(cv);
            if (fs != m.fixed) violation("C04", "fixed_size_mismatch", fmt("%s: get_fixed_size differs from the sizes given at construction", who), op, pre);
        }
        // ---- C08 allocator identity
        if (cv.get_allocator().get_arena() != m.arena)
            violation("C08", "allocator_identity", fmt("%s: get_allocator() is arena %d, expected %d", who, cv.get_allocator().get_arena(), m.arena), op, pre);
        // ---- block
        const auto db = reinterpret_cast<uintptr_t>(cv.data_begin());
        const auto de = reinterpret_cast<uintptr_t>(cv.data_end());
        const size_t mc = cv.memory_consumption();
        const Block* blk = db ? ledger().find_live(db) : nullptr;
        if (n == 0)
        {
            // ---- C18 empty-state sanity
            if (!(cv.begin() == cv.end())) violation("C18", "empty_begin_ne_end", fmt("%s: begin() != end() on an empty vector", who), op, pre);
            if (!(v.begin() == v.end())) violation("C18", "empty_begin_ne_end", fmt("%s: mutable begin() != end() on an empty vector", who), op, pre);
            if (db != de) violation("C18", "empty_data_begin_ne_end", fmt("%s: data_begin() %#zx != data_end() %#zx on an empty vector", who, size_t(db), size_t(de)), op, pre);
            if (db != 0 && !blk) violation("C18", "empty_data_pointer_invalid", fmt("%s: data_begin() %#zx of an empty vector is neither null nor inside/one past a block of the allocator", who, size_t(db)), op, pre);
            if (de != 0 && !ledger().find_live(de)) violation("C18", "empty_data_pointer_invalid", fmt("%s: data_end() %#zx of an empty vector is neither null nor inside/one past a block of the allocator", who, size_t(de)), op, pre);
        }
        if (db != 0 && blk)
        {
            using AK = typename std::decay_t<decltype(cv.get_allocator())>::kind;
            if (blk->arena != (AK::ALWAYS_EQUAL ? 0 : m.arena))
                violation("C08,C07", "block_of_foreign_arena", fmt("%s: storage block belongs to arena %d, get_allocator() is arena %d", who, blk->arena, m.arena), op, pre);
            if (mc > blk->bytes)
                violation("C02", "memory_consumption_exceeds_block", fmt("%s: memory_consumption() == %zu but the allocator handed out %zu bytes", who, mc, blk->bytes), op, pre);
        }
        if (de < db || de - db > mc)
            violation("C02", "data_range_exceeds_memory_consumption", fmt("%s: data_end()-data_begin() == %zd > memory_consumption() == %zu", who, ssize_t(de - db), mc), op, pre);
        bool zero_bytes = true;  // every held element occupies no storage at all (all FixedSize spans empty): a null block is fine
        for (size_t k = 0; k < NF; ++k)
            if (!(fields[k].kind == 'F' && !m.e.empty() && m.e[0].f[k].empty())) zero_bytes = false;
        if (n != 0 && !blk && zero_bytes && db == de)
        {
            for (size_t i = 0; i < n; ++i)
                if (!elem_match(m.e[i], G::read(cv[i]))) violation("C01", "value_mismatch", fmt("%s[%zu]: zero-byte element differs from the model", who, i), op, pre);
            return out().viol_in_case == before;
        }
        if (n != 0 && !blk)
        {
            violation("C02", "data_outside_allocator_memory", fmt("%s: data_begin() %#zx is not inside a live block of the allocator", who, size_t(db)), op, pre);
            return false;
        }
        if (out().viol_in_case != before && n != 0 && !blk) return false;

        // ---- element walk
        uintptr_t prev_elem_end = db;
        auto it = cv.begin();
        auto mit = v.begin();
        const size_t amax = Cfg::MAX_ALIGN;
        for (size_t i = 0; i < n; ++i, ++it, ++mit)
        {
            auto ref = cv[i];
            const auto a = G::addresses(ref);
            const auto ebeg = reinterpret_cast<uintptr_t>(ref.data_begin());
            const auto eend = reinterpret_cast<uintptr_t>(ref.data_end());
            // C04: iterator.data() and reference.data_begin() agree
            if (reinterpret_cast<uintptr_t>(it.data()) != ebeg)
                violation("C04", "iterator_data_mismatch", fmt("%s[%zu]: iterator.data() %#zx != reference.data_begin() %#zx", who, i, size_t(reinterpret_cast<uintptr_t>(it.data())), size_t(ebeg)), op, pre);
            uintptr_t prev_end = 0;
            bool addr_ok = true;
            for (size_t k = 0; k < NF; ++k)
            {
                const uintptr_t b = a[k].begin;
                const uintptr_t e = b + a[k].count * fields[k].size;
                // C04 counts
                if (a[k].count != m.e[i].f[k].size())
                {
                    violation("C04", "span_count_mismatch", fmt("%s[%zu] field %zu: span holds %zu objects, expected %zu", who, i, k, a[k].count, m.e[i].f[k].size()), op, pre);
                    addr_ok = false;
                }
                // C02 containment in the block handed out by the allocator
                if (b < blk->base || e > blk->base + blk->bytes || e < b)
                {
                    violation("C02", "object_outside_block", fmt("%s[%zu] field %zu: objects at [%#zx,%#zx) lie outside the block [%#zx,+%zu)", who, i, k, size_t(b), size_t(e), size_t(blk->base), blk->bytes), op, pre);
                    addr_ok = false;
                }
                // C03
                if (fields[k].align_declared && a[k].count != 0 && b % fields[k].align != 0)
                    violation("C03", "misaligned_object", fmt("%s[%zu] field %zu (%s, AlignAs %zu): address %#zx", who, i, k, fields[k].tname, fields[k].align, size_t(b)), op, pre);
                // C04 order / overlap inside the element
                if (k == 0)
                {
                    if (b != ebeg) violation("C04", "element_begin_mismatch", fmt("%s[%zu]: first field at %#zx but reference.data_begin() is %#zx", who, i, size_t(b), size_t(ebeg)), op, pre);
                }
                else if (b < prev_end)
                    violation("C04", "fields_overlap_or_out_of_order", fmt("%s[%zu] field %zu begins at %#zx before the end %#zx of field %zu", who, i, k, size_t(b), size_t(prev_end), k - 1), op, pre);
                // C05 tight packing
                const uintptr_t expect = k == 0 ? align_up(prev_elem_end, amax) : align_up(prev_end, fields[k].align);
                if (b != expect)
                {
                    if (k == 0)
                        violation("C05", "element_not_tightly_packed", fmt("%s[%zu]: starts at %#zx, lowest %zu-aligned address after the previous element is %#zx", who, i, size_t(b), amax, size_t(expect)), op, pre);
                    else
                        violation("C05", "field_not_tightly_packed", fmt("%s[%zu] field %zu: starts at %#zx, lowest %zu-aligned address after field %zu is %#zx", who, i, k, size_t(b), fields[k].align, k - 1, size_t(expect)), op, pre);
                }
                prev_end = e;
            }
            if (prev_end != eend) violation("C04", "element_end_mismatch", fmt("%s[%zu]: last field ends at %#zx but reference.data_end() is %#zx", who, i, size_t(prev_end), size_t(eend)), op, pre);
            // C04 elements in index order inside [data_begin, data_end)
            if (ebeg < prev_elem_end && i != 0) violation("C04", "elements_overlap_or_out_of_order", fmt("%s[%zu] begins at %#zx before the end %#zx of element %zu", who, i, size_t(ebeg), size_t(prev_elem_end), i - 1), op, pre);
            if (ebeg < db || eend > de) violation("C04", "element_outside_data_range", fmt("%s[%zu] [%#zx,%#zx) outside [data_begin %#zx, data_end %#zx)", who, i, size_t(ebeg), size_t(eend), size_t(db), size_t(de)), op, pre);
            prev_elem_end = eend;
            if (!addr_ok) return false;
            // ---- C01 values, through every access path
            const MElem got = G::read(ref);
            if (!elem_match(m.e[i], got))
            {
                violation("C01", "value_mismatch", fmt("%s[%zu] via const operator[]: got %s expected %s", who, i, elem_str(got).c_str(), elem_str(m.e[i]).c_str()), op, pre);
                return false;
            }
            const MElem got2 = G::read(*it);
            const MElem got3 = G::read(*mit);
            const MElem got4 = G::read(v[i]);
            if (!elem_match(m.e[i], got2) || !elem_match(m.e[i], got3) || !elem_match(m.e[i], got4))
                violation("C01,C11", "access_path_mismatch", fmt("%s[%zu]: const iterator / iterator / operator[] disagree: %s %s %s expected %s", who, i, elem_str(got2).c_str(), elem_str(got3).c_str(), elem_str(got4).c_str(), elem_str(m.e[i]).c_str()), op, pre);
        }
        if (n != 0)
        {
            if (!elem_match(m.e.front(), G::read(cv.front())) || !elem_match(m.e.front(), G::read(v.front())))
                violation("C01", "front_mismatch", fmt("%s: front() differs from element 0", who), op, pre);
            if (!elem_match(m.e.back(), G::read(cv.back())) || !elem_match(m.e.back(), G::read(v.back())))
                violation("C01", "back_mismatch", fmt("%s: back() differs from the last element", who), op, pre);
            if (!(it == cv.end())) violation("C01", "iteration_length", fmt("%s: begin()+size() != end()", who), op, pre);
            // C05: full vector without VaryingSize parameters uses exactly memory_consumption() (rounded up to the alignment)
            if (!Cfg::HAS_VARYING && n == m.cap && m.fresh_block && align_up(de - db, amax) != mc)
                violation("C05", "full_vector_footprint", fmt("%s: full vector occupies %zu bytes (rounded to %zu: %zu) but memory_consumption() == %zu", who, size_t(de - db), amax, align_up(de - db, amax), mc), op, pre);
        }
        return out().viol_in_case == before;
    }
};
}  // namespace vf
