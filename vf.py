#!/usr/bin/env python3
"""Driver of the runtime-monitoring checks for Tradias/contiguous.

  python3 vf.py setup                      pre-build the quick-tier binaries
  python3 vf.py check <Cnn> quick|thorough run one property check (exit 0 held / 1 violation / 2 inconclusive)
  python3 vf.py replay <path>              rebuild and re-run the case recorded in a replay file, verbosely
"""
import os
import sys

sys.path.insert(0, os.path.dirname(os.path.abspath(__file__)))


def main(argv):
    if len(argv) < 2:
        print(__doc__)
        return 2
    import checks
    cmd = argv[1]
    if cmd == "setup":
        return checks.setup()
    if cmd == "check":
        prop, tier = argv[2], (argv[3] if len(argv) > 3 else os.environ.get("VERIF_TIER", "quick"))
        return checks.run_check(prop, tier)
    if cmd == "replay":
        return checks.replay(argv[2])
    print(__doc__)
    return 2


if __name__ == "__main__":
    sys.exit(main(sys.argv))
